/*
 * glue_helper.c - accelerated LZMA1 / LZMA2 decoder-tokeniser for harness/glue.
 *
 * Written from the LZMA SDK specification (lzma-specification.txt) and the description of the
 * LZMA2 chunk format; it does not use or derive from liblzma's sources.  It mirrors
 * harness/glue/lzma.py (LzmaDecoder) and harness/glue/lzma2.py (decode) statement by statement;
 * the selftest compares both implementations on every input.
 *
 * usage:  glue_helper d1 lc lp pb dict_size usize(-1=unknown) allow_eopm preset_len collect < preset||data
 *         glue_helper d2 dict_size preset_len collect                                  < preset||data
 *         glue_helper crc64                                                            < data
 *   collect: 0 none, 1 stats only, 2 full symbol records
 * output (little endian):
 *   "GLUE" u32 status u32 reason u64 consumed u64 out_len u64 nsym u64 nchunks i64 eopm_len
 *   stats[11] (i64: lit match rep0 rep1 rep2 rep3 shortrep eopm max_dist max_len min_slack(-1 none))
 *   out bytes, nsym * 8-byte symbol records {u8 kind,u8 arg,u16 len,u32 dist}, nchunks * 22 i64 chunk records
 *   status: 0 ok_eopm / ok(lzma2)  1 ok_size  2 need_more  3 error(reason)
 */
#include <stdint.h>
#include <stdio.h>
#include <stdlib.h>
#include <string.h>

enum { ST_OK_EOPM = 0, ST_OK_SIZE = 1, ST_NEED_MORE = 2, ST_ERROR = 3 };
enum { R_NONE = 0, R_RC_INIT = 1, R_DIST = 2, R_SIZE = 3, R_EOPM = 4, R_EOPM_EARLY = 5, R_RC_END = 6,
       /* lzma2 level */
       R2_CONTROL = 10, R2_DICT_RESET_NEEDED = 11, R2_PROPS_NEEDED = 12, R2_PROPS = 13,
       R2_CSIZE_SHORT = 14, R2_CSIZE_LONG = 15 };
enum { K_LIT = 0, K_MATCH = 1, K_REP = 2, K_SHORTREP = 3, K_EOPM = 4 };

#define TOP (1u << 24)
#define NUM_STATES 12
#define PROB_INIT 1024
#define NREC 22   /* i64 fields per chunk record */

typedef uint16_t prob;

typedef struct {
	prob choice[2];
	prob low[16][8];
	prob mid[16][8];
	prob high[256];
} lencoder;

typedef struct {
	unsigned lc, lp, pb;
	unsigned state;
	uint32_t reps[4];
	prob is_match[NUM_STATES << 4];
	prob is_rep[NUM_STATES], is_rep_g0[NUM_STATES], is_rep_g1[NUM_STATES], is_rep_g2[NUM_STATES];
	prob is_rep0_long[NUM_STATES << 4];
	prob pos_slot[4][64];
	prob pos_special[1 + 128 - 14];
	prob align[16];
	lencoder len, rep;
	prob *literal;          /* 0x300 << (lc+lp) */
} model;

typedef struct {
	int64_t lit, match, rep[4], shortrep, eopm, max_dist, max_len, min_slack;
} stats_t;

/* growable buffers */
typedef struct { uint8_t *p; size_t n, cap; } buf_t;

static void die(const char *m) { fprintf(stderr, "glue_helper: %s\n", m); exit(2); }

static void reserve(buf_t *b, size_t extra)
{
	if (b->n + extra <= b->cap)
		return;
	size_t nc = b->cap ? b->cap : 65536;
	while (nc < b->n + extra)
		nc *= 2;
	b->p = realloc(b->p, nc);
	if (!b->p)
		die("out of memory");
	b->cap = nc;
}

static void fill(prob *p, size_t n) { for (size_t i = 0; i < n; i++) p[i] = PROB_INIT; }

static void model_reset_state(model *m)
{
	m->state = 0;
	m->reps[0] = m->reps[1] = m->reps[2] = m->reps[3] = 0;
	fill(m->is_match, NUM_STATES << 4);
	fill(m->is_rep, NUM_STATES); fill(m->is_rep_g0, NUM_STATES);
	fill(m->is_rep_g1, NUM_STATES); fill(m->is_rep_g2, NUM_STATES);
	fill(m->is_rep0_long, NUM_STATES << 4);
	fill(&m->pos_slot[0][0], 4 * 64);
	fill(m->pos_special, 1 + 128 - 14);
	fill(m->align, 16);
	fill((prob *)&m->len, sizeof(lencoder) / sizeof(prob));
	fill((prob *)&m->rep, sizeof(lencoder) / sizeof(prob));
	fill(m->literal, (size_t)0x300 << (m->lc + m->lp));
}

static void model_set_props(model *m, unsigned lc, unsigned lp, unsigned pb)
{
	m->lc = lc; m->lp = lp; m->pb = pb;
	free(m->literal);
	m->literal = malloc(sizeof(prob) * ((size_t)0x300 << (lc + lp)));
	if (!m->literal)
		die("out of memory");
	model_reset_state(m);
}

/* decoder context: history buffer = everything (preset + output); dict_start = index of the first
 * byte that belongs to the current dictionary (moves on dictionary reset); pos_base = index of
 * position 0 for pos_state purposes (preset dictionary excluded). */
typedef struct {
	model m;
	buf_t hist;
	size_t dict_start, pos_base;
	uint64_t dict_size;
	int collect;
	buf_t syms;
	stats_t st;           /* stats of the current call */
	int64_t eopm_len;
} dec_t;

static void stats_init(stats_t *s) { memset(s, 0, sizeof(*s)); s->min_slack = -1; }

static inline void emit(dec_t *d, unsigned kind, unsigned arg, unsigned len, uint32_t dist)
{
	if (d->collect < 2)
		return;
	reserve(&d->syms, 8);
	uint8_t *q = d->syms.p + d->syms.n;
	q[0] = (uint8_t)kind; q[1] = (uint8_t)arg; q[2] = (uint8_t)len; q[3] = (uint8_t)(len >> 8);
	q[4] = (uint8_t)dist; q[5] = (uint8_t)(dist >> 8); q[6] = (uint8_t)(dist >> 16); q[7] = (uint8_t)(dist >> 24);
	d->syms.n += 8;
}

/* range decoder with lazy normalisation */
typedef struct { uint32_t range, code; const uint8_t *in; size_t ip, end; int starved; } rc_t;

#define NORMALIZE(rc) do { \
	if ((rc)->range < TOP) { \
		if ((rc)->ip >= (rc)->end) { (rc)->starved = 1; goto need_more; } \
		(rc)->range <<= 8; (rc)->code = ((rc)->code << 8) | (rc)->in[(rc)->ip++]; \
	} } while (0)

#define BIT(rc, pp, bitvar) do { \
	NORMALIZE(rc); \
	prob *p__ = (pp); uint32_t v__ = *p__; uint32_t bound__ = ((rc)->range >> 11) * v__; \
	if ((rc)->code < bound__) { (rc)->range = bound__; *p__ = (prob)(v__ + ((2048 - v__) >> 5)); bitvar = 0; } \
	else { (rc)->range -= bound__; (rc)->code -= bound__; *p__ = (prob)(v__ - (v__ >> 5)); bitvar = 1; } \
	} while (0)

#define TREE(rc, probs, nbits, result) do { \
	unsigned m__ = 1, b__; \
	for (unsigned i__ = 0; i__ < (nbits); i__++) { BIT(rc, &(probs)[m__], b__); m__ = (m__ << 1) | b__; } \
	result = m__ - (1u << (nbits)); } while (0)

#define RTREE(rc, probs, nbits, result) do { \
	unsigned m__ = 1, b__; uint32_t v2__ = 0; \
	for (unsigned i__ = 0; i__ < (nbits); i__++) { BIT(rc, &(probs)[m__], b__); m__ = (m__ << 1) | b__; v2__ |= (uint32_t)b__ << i__; } \
	result = v2__; } while (0)

#define DECLEN(rc, lc_, ps, result) do { \
	unsigned c__; BIT(rc, &(lc_)->choice[0], c__); \
	if (c__ == 0) { TREE(rc, (lc_)->low[ps], 3, result); } \
	else { BIT(rc, &(lc_)->choice[1], c__); \
		if (c__ == 0) { TREE(rc, (lc_)->mid[ps], 3, result); result += 8; } \
		else { TREE(rc, (lc_)->high, 8, result); result += 16; } } \
	} while (0)

static unsigned st_lit(unsigned s) { return s < 4 ? 0 : (s < 10 ? s - 3 : s - 6); }

/* Decode one range-coded stream at in[start..end). usize < 0: unknown.
 * Returns status; *reason, *consumed set. Output appended to d->hist. */
static int lzma_decode_stream(dec_t *d, const uint8_t *in, size_t start, size_t end, int64_t usize,
		int allow_eopm, int *reason, size_t *consumed)
{
	model *m = &d->m;
	rc_t rcs, *rc = &rcs;
	int status = ST_ERROR;
	*reason = R_NONE;
	d->eopm_len = -1;
	if (end - start < 5) {
		if (end > start && in[start] != 0) { *reason = R_RC_INIT; *consumed = 1; return ST_ERROR; }
		*consumed = end - start;
		return ST_NEED_MORE;
	}
	if (in[start] != 0) { *reason = R_RC_INIT; *consumed = 1; return ST_ERROR; }
	rc->in = in; rc->end = end; rc->starved = 0;
	rc->code = ((uint32_t)in[start + 1] << 24) | ((uint32_t)in[start + 2] << 16)
		| ((uint32_t)in[start + 3] << 8) | in[start + 4];
	rc->ip = start + 5;
	rc->range = 0xFFFFFFFFu;

	const unsigned pb_mask = (1u << m->pb) - 1, lp_mask = (1u << m->lp) - 1, lc = m->lc;
	int64_t remaining = usize;          /* <0: unknown */
	int want_eopm_only = 0;
	stats_t *st = &d->st;

	for (;;) {
		if (remaining == 0 && !want_eopm_only) {
			NORMALIZE(rc);
			if (rc->code == 0) { status = ST_OK_SIZE; break; }
			if (!allow_eopm) { *reason = R_RC_END; break; }
			want_eopm_only = 1;
		}
		size_t n = d->hist.n;
		uint64_t pos = n - d->pos_base;
		unsigned ps = (unsigned)(pos & pb_mask);
		unsigned s = m->state;
		unsigned b;
		BIT(rc, &m->is_match[(s << 4) | ps], b);
		if (b == 0) {
			if (remaining == 0) { *reason = R_SIZE; break; }
			unsigned prev = n > d->dict_start ? d->hist.p[n - 1] : 0;
			prob *lit = m->literal + (size_t)0x300 * ((((unsigned)pos & lp_mask) << lc) + (prev >> (8 - lc)));
			unsigned symbol = 1;
			if (s >= 7) {
				uint32_t r0 = m->reps[0];
				unsigned mb = ((uint64_t)r0 < (uint64_t)(n - d->dict_start)) ? d->hist.p[n - r0 - 1] : 0;
				while (symbol < 0x100) {
					unsigned mbit = (mb >> 7) & 1;
					mb = (mb << 1) & 0xFF;
					BIT(rc, &lit[((1 + mbit) << 8) + symbol], b);
					symbol = (symbol << 1) | b;
					if (mbit != b)
						break;
				}
			}
			while (symbol < 0x100) {
				BIT(rc, &lit[symbol], b);
				symbol = (symbol << 1) | b;
			}
			reserve(&d->hist, 1);
			d->hist.p[d->hist.n++] = (uint8_t)symbol;
			m->state = st_lit(s);
			if (remaining > 0)
				remaining--;
			st->lit++;
			emit(d, K_LIT, symbol & 0xFF, 0, 0);
			continue;
		}
		unsigned length, kind, idx = 0;
		uint32_t dist0;
		BIT(rc, &m->is_rep[s], b);
		if (b == 0) {
			DECLEN(rc, &m->len, ps, length);
			length += 2;
			unsigned ls = length - 2 < 3 ? length - 2 : 3;
			unsigned slot;
			TREE(rc, m->pos_slot[ls], 6, slot);
			if (slot < 4) {
				dist0 = slot;
			} else {
				unsigned nd = (slot >> 1) - 1;
				uint32_t add;
				dist0 = (uint32_t)(2 | (slot & 1)) << nd;
				if (slot < 14) {
					RTREE(rc, m->pos_special + dist0 - slot, nd, add);
					dist0 += add;
				} else {
					uint32_t v = 0;
					for (unsigned i = 0; i < nd - 4; i++) {
						NORMALIZE(rc);
						rc->range >>= 1;
						if (rc->code >= rc->range) { rc->code -= rc->range; v = (v << 1) | 1; }
						else v <<= 1;
					}
					dist0 += v << 4;
					RTREE(rc, m->align, 4, add);
					dist0 += add;
				}
			}
			m->reps[3] = m->reps[2]; m->reps[2] = m->reps[1]; m->reps[1] = m->reps[0]; m->reps[0] = dist0;
			m->state = s < 7 ? 7 : 10;
			if (dist0 == 0xFFFFFFFFu) {
				d->eopm_len = length;
				st->eopm++;
				emit(d, K_EOPM, 0, length, dist0);
				NORMALIZE(rc);
				if (usize >= 0 && !allow_eopm) *reason = R_EOPM;
				else if (remaining > 0) *reason = R_EOPM_EARLY;
				else if (rc->code != 0) *reason = R_RC_END;
				else status = ST_OK_EOPM;
				break;
			}
			kind = K_MATCH;
			st->match++;
		} else {
			BIT(rc, &m->is_rep_g0[s], b);
			if (b == 0) {
				BIT(rc, &m->is_rep0_long[(s << 4) | ps], b);
				if (b == 0) {
					if (remaining == 0) { *reason = R_SIZE; break; }
					uint32_t r0 = m->reps[0];
					uint64_t avail = n - d->dict_start;
					if ((uint64_t)r0 >= avail || (uint64_t)r0 >= d->dict_size) { *reason = R_DIST; break; }
					m->state = s < 7 ? 9 : 11;
					reserve(&d->hist, 1);
					d->hist.p[d->hist.n] = d->hist.p[n - r0 - 1];
					d->hist.n++;
					if (remaining > 0)
						remaining--;
					st->shortrep++;
					emit(d, K_SHORTREP, 0, 1, 0);
					continue;
				}
				idx = 0;
			} else {
				uint32_t t;
				BIT(rc, &m->is_rep_g1[s], b);
				if (b == 0) {
					idx = 1;
					t = m->reps[1]; m->reps[1] = m->reps[0]; m->reps[0] = t;
				} else {
					BIT(rc, &m->is_rep_g2[s], b);
					if (b == 0) {
						idx = 2;
						t = m->reps[2]; m->reps[2] = m->reps[1]; m->reps[1] = m->reps[0]; m->reps[0] = t;
					} else {
						idx = 3;
						t = m->reps[3]; m->reps[3] = m->reps[2]; m->reps[2] = m->reps[1];
						m->reps[1] = m->reps[0]; m->reps[0] = t;
					}
				}
			}
			DECLEN(rc, &m->rep, ps, length);
			length += 2;
			m->state = s < 7 ? 8 : 11;
			dist0 = m->reps[0];
			kind = K_REP;
			st->rep[idx]++;
		}
		/* copy */
		if (remaining == 0) { *reason = R_SIZE; break; }
		{
			uint64_t avail = n - d->dict_start;
			if ((uint64_t)dist0 >= avail || (uint64_t)dist0 >= d->dict_size) {
				emit(d, kind, idx, length, kind == K_MATCH ? dist0 : 0);
				*reason = R_DIST;
				break;
			}
			emit(d, kind, idx, length, kind == K_MATCH ? dist0 : 0);
			if ((int64_t)dist0 + 1 > st->max_dist) st->max_dist = (int64_t)dist0 + 1;
			if ((int64_t)length > st->max_len) st->max_len = length;
			uint64_t lim = avail < d->dict_size ? avail : d->dict_size;
			int64_t slack = (int64_t)(lim - ((uint64_t)dist0 + 1));
			if (st->min_slack < 0 || slack < st->min_slack) st->min_slack = slack;
			unsigned cl = length;
			int err = 0;
			if (remaining >= 0 && (int64_t)cl > remaining) { cl = (unsigned)remaining; err = 1; }
			reserve(&d->hist, cl);
			uint8_t *dst = d->hist.p + n;
			const uint8_t *src = dst - dist0 - 1;
			for (unsigned i = 0; i < cl; i++)
				dst[i] = src[i];
			d->hist.n += cl;
			if (remaining > 0)
				remaining -= cl;
			if (err) { *reason = R_SIZE; break; }
		}
	}
	*consumed = rc->ip - start;
	return status;
need_more:
	*consumed = rc->ip - start;
	return ST_NEED_MORE;
}

/* ------------------------------------------------------------------ output helpers */
static void put64(buf_t *b, int64_t v)
{
	reserve(b, 8);
	for (int i = 0; i < 8; i++)
		b->p[b->n++] = (uint8_t)((uint64_t)v >> (8 * i));
}

static void stats_add(stats_t *a, const stats_t *c)
{
	a->lit += c->lit; a->match += c->match; a->shortrep += c->shortrep; a->eopm += c->eopm;
	for (int i = 0; i < 4; i++) a->rep[i] += c->rep[i];
	if (c->max_dist > a->max_dist) a->max_dist = c->max_dist;
	if (c->max_len > a->max_len) a->max_len = c->max_len;
	if (c->min_slack >= 0 && (a->min_slack < 0 || c->min_slack < a->min_slack)) a->min_slack = c->min_slack;
}

static void put_stats(buf_t *b, const stats_t *s)
{
	put64(b, s->lit); put64(b, s->match);
	for (int i = 0; i < 4; i++) put64(b, s->rep[i]);
	put64(b, s->shortrep); put64(b, s->eopm); put64(b, s->max_dist); put64(b, s->max_len); put64(b, s->min_slack);
}

static uint8_t *read_all(size_t *n)
{
	buf_t b = {0, 0, 0};
	for (;;) {
		reserve(&b, 1 << 16);
		size_t r = fread(b.p + b.n, 1, 1 << 16, stdin);
		b.n += r;
		if (r == 0)
			break;
	}
	*n = b.n;
	return b.p;
}

static void finish(int status, int reason, size_t consumed, dec_t *d, size_t out_start, const stats_t *total,
		buf_t *chunks, size_t nchunks)
{
	buf_t h = {0, 0, 0};
	reserve(&h, 4);
	memcpy(h.p, "GLUE", 4); h.n = 4;
	put64(&h, ((int64_t)reason << 32) | (uint32_t)status);
	put64(&h, (int64_t)consumed);
	put64(&h, (int64_t)(d->hist.n - out_start));
	put64(&h, (int64_t)(d->syms.n / 8));
	put64(&h, (int64_t)nchunks);
	put64(&h, d->eopm_len);
	put_stats(&h, total);
	fwrite(h.p, 1, h.n, stdout);
	fwrite(d->hist.p + out_start, 1, d->hist.n - out_start, stdout);
	if (d->syms.n)
		fwrite(d->syms.p, 1, d->syms.n, stdout);
	if (chunks && chunks->n)
		fwrite(chunks->p, 1, chunks->n, stdout);
	fflush(stdout);
}

static uint64_t arg_u64(const char *s) { return strtoull(s, NULL, 10); }

int main(int argc, char **argv)
{
	if (argc < 2)
		die("usage");
	if (!strcmp(argv[1], "crc64")) {
		size_t n; uint8_t *in = read_all(&n);
		uint64_t t[256];
		for (unsigned i = 0; i < 256; i++) {
			uint64_t c = i;
			for (int j = 0; j < 8; j++) c = (c & 1) ? (c >> 1) ^ 0xC96C5795D7870F42ull : c >> 1;
			t[i] = c;
		}
		uint64_t c = ~0ull;
		for (size_t i = 0; i < n; i++) c = t[(in[i] ^ c) & 0xFF] ^ (c >> 8);
		printf("%016llx\n", (unsigned long long)~c);
		return 0;
	}
	if (!strcmp(argv[1], "d1")) {
		if (argc != 10)
			die("d1 lc lp pb dict_size usize allow_eopm preset_len collect");
		unsigned lc = atoi(argv[2]), lp = atoi(argv[3]), pb = atoi(argv[4]);
		if (lc > 8 || lp > 4 || pb > 4)
			die("bad lc/lp/pb");
		dec_t d; memset(&d, 0, sizeof(d));
		d.dict_size = arg_u64(argv[5]);
		int64_t usize = strtoll(argv[6], NULL, 10);
		int allow_eopm = atoi(argv[7]);
		size_t preset_len = (size_t)arg_u64(argv[8]);
		d.collect = atoi(argv[9]);
		size_t n; uint8_t *in = read_all(&n);
		if (preset_len > n)
			die("preset_len");
		size_t pl = preset_len, skip = 0;
		if ((uint64_t)pl > d.dict_size) { skip = pl - (size_t)d.dict_size; pl = (size_t)d.dict_size; }
		reserve(&d.hist, pl + 1);
		memcpy(d.hist.p, in + skip, pl);
		d.hist.n = pl; d.dict_start = 0; d.pos_base = pl;
		model_set_props(&d.m, lc, lp, pb);
		stats_init(&d.st);
		int reason; size_t consumed;
		int status = lzma_decode_stream(&d, in, preset_len, n, usize, allow_eopm, &reason, &consumed);
		finish(status, reason, consumed, &d, pl, &d.st, NULL, 0);
		return 0;
	}
	if (!strcmp(argv[1], "d2")) {
		if (argc != 5)
			die("d2 dict_size preset_len collect");
		dec_t d; memset(&d, 0, sizeof(d));
		d.dict_size = arg_u64(argv[2]);
		size_t preset_len = (size_t)arg_u64(argv[3]);
		d.collect = atoi(argv[4]);
		size_t n; uint8_t *in = read_all(&n);
		if (preset_len > n)
			die("preset_len");
		size_t pl = preset_len, skip = 0;
		if ((uint64_t)pl > d.dict_size) { skip = pl - (size_t)d.dict_size; pl = (size_t)d.dict_size; }
		reserve(&d.hist, pl + 1);
		memcpy(d.hist.p, in + skip, pl);
		d.hist.n = pl; d.dict_start = 0; d.pos_base = pl;
		model_set_props(&d.m, 0, 0, 0);
		int need_dict_reset = (preset_len == 0), need_props = 1;
		stats_t total; stats_init(&total);
		buf_t chunks = {0, 0, 0};
		size_t nchunks = 0;
		size_t ip = preset_len;
		int status = ST_ERROR, reason = R_NONE;
		d.eopm_len = -1;
		for (;;) {
			size_t off = ip - preset_len;
			if (ip >= n) { status = ST_NEED_MORE; break; }
			unsigned control = in[ip];
			int64_t rec[NREC];
			for (int i = 0; i < NREC; i++) rec[i] = 0;
			rec[0] = (int64_t)off; rec[1] = control; rec[2] = -1; rec[3] = -1; rec[4] = -1;
			rec[5] = (int64_t)(d.syms.n / 8); rec[16] = -1; rec[17] = -1; rec[18] = 0;
			/* rec: 0 offset 1 control 2 props 3 usize 4 csize 5 sym_start 6 sym_count 7 lit 8 match 9..12 rep 13 shortrep
			 *      14 max_dist 15 max_len 16 min_slack 17 status(-1 header only/incomplete) 18 reason 19 out_len
			 *      20 decoder_ran 21 eopm */
			if (control == 0x00) {
				ip++;
				rec[17] = 0;
				for (int i = 0; i < NREC; i++) put64(&chunks, rec[i]);
				nchunks++;
				status = ST_OK_EOPM;
				break;
			}
			if (control >= 0x03 && control < 0x80) {
				reason = R2_CONTROL; rec[17] = ST_ERROR; rec[18] = reason;
				for (int i = 0; i < NREC; i++) put64(&chunks, rec[i]);
				nchunks++;
				break;
			}
			if (control >= 0xE0 || control == 0x01) {
				need_props = 1;
				need_dict_reset = 0;
				d.dict_start = d.hist.n;
				d.pos_base = d.hist.n;
			} else if (need_dict_reset) {
				reason = R2_DICT_RESET_NEEDED; rec[17] = ST_ERROR; rec[18] = reason;
				for (int i = 0; i < NREC; i++) put64(&chunks, rec[i]);
				nchunks++;
				break;
			}
			if (control < 0x80) {
				/* uncompressed chunk */
				if (n - ip < 3) { status = ST_NEED_MORE; for (int i = 0; i < NREC; i++) put64(&chunks, rec[i]); nchunks++; break; }
				size_t sz = (((size_t)in[ip + 1] << 8) | in[ip + 2]) + 1;
				rec[3] = (int64_t)sz; rec[4] = (int64_t)sz;
				size_t have = n - ip - 3;
				size_t cp = have < sz ? have : sz;
				reserve(&d.hist, cp);
				memcpy(d.hist.p + d.hist.n, in + ip + 3, cp);
				d.hist.n += cp;
				rec[19] = (int64_t)cp;
				if (cp < sz) {
					ip = n;
					status = ST_NEED_MORE;
					for (int i = 0; i < NREC; i++) put64(&chunks, rec[i]);
					nchunks++;
					break;
				}
				ip += 3 + sz;
				rec[17] = 0;
				for (int i = 0; i < NREC; i++) put64(&chunks, rec[i]);
				nchunks++;
				continue;
			}
			/* LZMA chunk */
			size_t hdr = control >= 0xC0 ? 6 : 5;
			if (control < 0xC0 && need_props) {
				reason = R2_PROPS_NEEDED; rec[17] = ST_ERROR; rec[18] = reason;
				for (int i = 0; i < NREC; i++) put64(&chunks, rec[i]);
				nchunks++;
				break;
			}
			if (n - ip < 5) { status = ST_NEED_MORE; for (int i = 0; i < NREC; i++) put64(&chunks, rec[i]); nchunks++; break; }
			size_t us = ((((size_t)control & 0x1F) << 16) | ((size_t)in[ip + 1] << 8) | in[ip + 2]) + 1;
			size_t cs = (((size_t)in[ip + 3] << 8) | in[ip + 4]) + 1;
			rec[3] = (int64_t)us; rec[4] = (int64_t)cs;
			if (control >= 0xC0) {
				if (n - ip < 6) { status = ST_NEED_MORE; for (int i = 0; i < NREC; i++) put64(&chunks, rec[i]); nchunks++; break; }
				unsigned pbyte = in[ip + 5];
				rec[2] = pbyte;
				unsigned pb = pbyte / 45, rem = pbyte - pb * 45, lp = rem / 9, lc = rem - lp * 9;
				if (pbyte > 224 || lc + lp > 4) {
					reason = R2_PROPS; rec[17] = ST_ERROR; rec[18] = reason;
					for (int i = 0; i < NREC; i++) put64(&chunks, rec[i]);
					nchunks++;
					break;
				}
				model_set_props(&d.m, lc, lp, pb);
				need_props = 0;
			} else if (control >= 0xA0) {
				model_reset_state(&d.m);
			}
			size_t cstart = ip + hdr;
			size_t cend = cstart + cs;
			size_t lim = cend < n ? cend : n;
			stats_init(&d.st);
			int creason; size_t consumed;
			size_t hn0 = d.hist.n;
			int cst = lzma_decode_stream(&d, in, cstart, lim, (int64_t)us, 0, &creason, &consumed);
			rec[19] = (int64_t)(d.hist.n - hn0);
			rec[20] = 1; rec[21] = d.st.eopm;
			stats_add(&total, &d.st);
			rec[6] = (int64_t)(d.syms.n / 8) - rec[5];
			rec[7] = d.st.lit; rec[8] = d.st.match;
			for (int i = 0; i < 4; i++) rec[9 + i] = d.st.rep[i];
			rec[13] = d.st.shortrep; rec[14] = d.st.max_dist; rec[15] = d.st.max_len; rec[16] = d.st.min_slack;
			if (cst == ST_NEED_MORE) {
				if (cend > n) {
					status = ST_NEED_MORE; ip = n;
					for (int i = 0; i < NREC; i++) put64(&chunks, rec[i]);
					nchunks++;
					break;
				}
				cst = ST_ERROR; creason = R2_CSIZE_SHORT;
			} else if (cst == ST_OK_SIZE && consumed != cs) {
				cst = ST_ERROR; creason = R2_CSIZE_LONG;
			}
			if (cst != ST_OK_SIZE) {
				reason = creason; rec[17] = ST_ERROR; rec[18] = reason;
				ip = cstart + consumed;
				for (int i = 0; i < NREC; i++) put64(&chunks, rec[i]);
				nchunks++;
				break;
			}
			rec[17] = 0;
			for (int i = 0; i < NREC; i++) put64(&chunks, rec[i]);
			nchunks++;
			ip = cend;
		}
		finish(status, reason, ip - preset_len, &d, pl, &total, &chunks, nchunks);
		return 0;
	}
	die("unknown mode");
	return 2;
}
