"""CRC32 / CRC64 exactly as given in xz-file-format.txt section 6, plus SHA-256.

The tables are generated from the reflected polynomials; nothing is taken from zlib or liblzma,
so these are usable as an independent serialisation aid (they are never the oracle of C14).
"""
import hashlib

POLY32 = 0xEDB88320
POLY64 = 0xC96C5795D7870F42

def _table(poly):
    t = []
    for i in range(256):
        c = i
        for _ in range(8):
            c = (c >> 1) ^ poly if c & 1 else c >> 1
        t.append(c)
    return t

_T32 = _table(POLY32)
_T64 = _table(POLY64)

def crc32_table(data, init=0):
    """CRC32 (IEEE 802.3, reflected), table version of the document's code."""
    c = init ^ 0xFFFFFFFF
    t = _T32
    for b in bytes(data):
        c = t[(b ^ c) & 0xFF] ^ (c >> 8)
    return c ^ 0xFFFFFFFF

def crc64_table(data, init=0):
    """CRC64 (ECMA-182, reflected), table version of the document's code."""
    c = init ^ 0xFFFFFFFFFFFFFFFF
    t = _T64
    for b in bytes(data):
        c = t[(b ^ c) & 0xFF] ^ (c >> 8)
    return c ^ 0xFFFFFFFFFFFFFFFF

try:
    import zlib as _zlib
    if _zlib.crc32(b"123456789") != crc32_table(b"123456789") or \
       _zlib.crc32(b"\x00\xff" * 40, 0x12345678) != crc32_table(b"\x00\xff" * 40, 0x12345678):
        _zlib = None
except ImportError:
    _zlib = None

def crc32(data, init=0):
    """CRC32 of the .xz format. `init` is a previous return value for incremental use.
    Uses zlib's implementation (validated against the table version at import) for speed."""
    if _zlib is not None:
        return _zlib.crc32(bytes(data), init) & 0xFFFFFFFF
    return crc32_table(data, init)

def crc64(data, init=0):
    """CRC64 of the .xz format. Big inputs go through the C helper (same table algorithm) when available."""
    if len(data) >= (1 << 16) and init == 0:
        try:
            from . import chelper
            if chelper.available():
                return chelper.crc64(data)
        except Exception:
            pass
    return crc64_table(data, init)

def crc32_bitwise(data, init=0):
    """Bit-at-a-time definition (used by the selftest to validate the table version)."""
    c = init ^ 0xFFFFFFFF
    for b in bytes(data):
        c ^= b
        for _ in range(8):
            c = (c >> 1) ^ POLY32 if c & 1 else c >> 1
    return c ^ 0xFFFFFFFF

def crc64_bitwise(data, init=0):
    c = init ^ 0xFFFFFFFFFFFFFFFF
    for b in bytes(data):
        c ^= b
        for _ in range(8):
            c = (c >> 1) ^ POLY64 if c & 1 else c >> 1
    return c ^ 0xFFFFFFFFFFFFFFFF

def sha256(data):
    return hashlib.sha256(bytes(data)).digest()

# ---- Check field of the .xz format (xz-file-format.txt 2.1.1.2 / 3.4)
CHECK_NONE, CHECK_CRC32, CHECK_CRC64, CHECK_SHA256 = 0, 1, 4, 10
CHECK_SIZES = [0, 4, 4, 4, 8, 8, 8, 16, 16, 16, 32, 32, 32, 64, 64, 64]

def check_size(check_id):
    return CHECK_SIZES[check_id & 0xF]

def check_supported(check_id):
    return check_id in (0, 1, 4, 10)

def check_bytes(check_id, data):
    """The Check field for `data`; for ids the format does not define: zeros of the right size."""
    if check_id == CHECK_NONE:
        return b""
    if check_id == CHECK_CRC32:
        return crc32(data).to_bytes(4, "little")
    if check_id == CHECK_CRC64:
        return crc64(data).to_bytes(8, "little")
    if check_id == CHECK_SHA256:
        return sha256(data)
    return bytes(check_size(check_id))
