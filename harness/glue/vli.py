"""Variable-length integers of the .xz format (xz-file-format.txt section 1.2)."""
from . import FormatError, Truncated

VLI_MAX = (1 << 63) - 1

def encode(n):
    """Minimal encoding of 0 <= n <= 2^63-1 (1..9 bytes)."""
    if n < 0 or n > VLI_MAX:
        raise ValueError("VLI out of range: %r" % (n,))
    out = bytearray()
    while n >= 0x80:
        out.append((n & 0x7F) | 0x80)
        n >>= 7
    out.append(n)
    return bytes(out)

def encode_padded(n, size):
    """NON-minimal (invalid) encoding of n in exactly `size` bytes (size may exceed 9): for negative tests."""
    out = bytearray()
    for i in range(size - 1):
        out.append((n & 0x7F) | 0x80)
        n >>= 7
    out.append(n & 0x7F)
    return bytes(out)

def size(n):
    return len(encode(n))

def decode(buf, pos=0, limit=9, end=None):
    """Decode one VLI at buf[pos:]. Returns (value, newpos).

    `limit` is the maximum encoded length (9 in the format), `end` (default len(buf)) bounds the
    readable bytes (e.g. the end of a Block Header).  Raises FormatError on an encoding that is longer
    than `limit` bytes or that ends in a 0x00 continuation byte (non-minimal), and Truncated if the
    buffer (up to `end`) ends inside the integer.
    """
    if end is None:
        end = len(buf)
    if limit > 9:
        limit = 9
    if pos >= end:
        raise Truncated("vli at %d" % pos)
    b = buf[pos]
    val = b & 0x7F
    i = 0
    while b & 0x80:
        i += 1
        if i >= limit:
            raise FormatError("vli longer than %d bytes at %d" % (limit, pos))
        if pos + i >= end:
            raise Truncated("vli at %d" % pos)
        b = buf[pos + i]
        if b == 0:
            raise FormatError("non-minimal vli at %d" % pos)
        val |= (b & 0x7F) << (7 * i)
    return val, pos + i + 1
