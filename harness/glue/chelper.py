"""Build-on-demand wrapper around glue_helper.c (accelerated LZMA1/LZMA2 decoder-tokeniser, CRC64).

The helper is a standalone process (a crash cannot take the check down); it is compiled with `cc -O2`
into $VERIF_BUILD/glue/ (default /verif/build/glue), keyed by the hash of the source.
"""
import os, subprocess, hashlib, struct, fcntl
from . import lzma as _lz

_HERE = os.path.dirname(os.path.abspath(__file__))
_VERIF = os.path.dirname(os.path.dirname(_HERE))
_SRC = os.path.join(_HERE, "glue_helper.c")
_exe = None
_failed = None

class HelperError(Exception):
    pass

def _build():
    global _exe, _failed
    if _exe or _failed:
        return _exe
    if os.environ.get("GLUE_NO_HELPER"):
        _failed = HelperError("disabled by GLUE_NO_HELPER")
        return None
    try:
        bdir = os.path.join(os.environ.get("VERIF_BUILD", os.path.join(_VERIF, "build")), "glue")
        os.makedirs(bdir, exist_ok=True)
        src = open(_SRC, "rb").read()
        exe = os.path.join(bdir, "glue_helper-" + hashlib.sha256(src).hexdigest()[:16])
        if not os.path.exists(exe):
            with open(os.path.join(bdir, ".lock"), "w") as lk:
                fcntl.flock(lk, fcntl.LOCK_EX)
                if not os.path.exists(exe):
                    tmp = exe + ".tmp%d" % os.getpid()
                    r = subprocess.run(["cc", "-O2", "-o", tmp, _SRC], stdout=subprocess.PIPE,
                                       stderr=subprocess.STDOUT, text=True, timeout=120)
                    if r.returncode != 0:
                        raise HelperError("cc failed: " + r.stdout[-2000:])
                    os.rename(tmp, exe)
        _exe = exe
    except Exception as e:       # no compiler etc.: the pure Python path is used
        _failed = e
    return _exe

def available():
    return _build() is not None

def _run(args, data, timeout=600):
    exe = _build()
    if exe is None:
        raise HelperError("glue_helper unavailable: %r" % (_failed,))
    env = dict(os.environ)
    env.pop("LD_PRELOAD", None)          # the check runs with libasan preloaded; the helper does not need it
    r = subprocess.run([exe] + [str(a) for a in args], input=data, stdout=subprocess.PIPE,
                       stderr=subprocess.PIPE, timeout=timeout, env=env)
    if r.returncode != 0:
        raise HelperError("glue_helper %s failed rc=%d: %s" % (args[0], r.returncode, r.stderr[-500:]))
    return r.stdout

_REASON = {1: 'rc_init', 2: 'dist', 3: 'size', 4: 'eopm', 5: 'eopm_early', 6: 'rc_end',
           10: 'control', 11: 'dict_reset_needed', 12: 'props_needed', 13: 'props',
           14: 'csize_short', 15: 'csize_long'}
NREC = 22

def _stats(v):
    return dict(lit=v[0], match=v[1], rep=list(v[2:6]), shortrep=v[6], eopm=v[7], max_dist=v[8], max_len=v[9],
                min_slack=None if v[10] < 0 else v[10])

def symbols_from_records(raw, start=0, count=None):
    """8-byte records {u8 kind,u8 arg,u16 len,u32 dist} -> list of symbol tuples."""
    if count is None:
        count = len(raw) // 8 - start
    out = []
    ap = out.append
    SR = ('shortrep',)
    EO = ('eopm',)
    for kind, arg, ln, dist in struct.iter_unpack("<BBHI", memoryview(raw)[start * 8:(start + count) * 8]):
        if kind == 0:
            ap(('lit', arg))
        elif kind == 1:
            ap(('match', dist, ln))
        elif kind == 2:
            ap(('rep', arg, ln))
        elif kind == 3:
            ap(SR)
        else:
            ap(EO)
    return out

def _parse(outb):
    if outb[:4] != b"GLUE":
        raise HelperError("bad helper output")
    hdr = struct.unpack_from("<6q11q", outb, 4)
    sr, consumed, out_len, nsym, nchunks, eopm_len = hdr[:6]
    status, reason = sr & 0xFFFFFFFF, sr >> 32
    stats = _stats(hdr[6:17])
    p = 4 + 17 * 8
    out = outb[p:p + out_len]
    p += out_len
    syms = outb[p:p + nsym * 8]
    p += nsym * 8
    crecs = [struct.unpack_from("<%dq" % NREC, outb, p + i * NREC * 8) for i in range(nchunks)]
    return status, reason, consumed, out, syms, crecs, stats, eopm_len

def lzma1_decode(data, lc, lp, pb, dict_size, usize=None, preset_dict=b"", allow_eopm=True, collect='full'):
    cl = {'full': 2, 'stats': 1, None: 0}[collect]
    pd = bytes(preset_dict)
    o = _run(["d1", lc, lp, pb, dict_size, -1 if usize is None else usize, 1 if allow_eopm else 0, len(pd), cl],
             pd + bytes(data))
    status, reason, consumed, out, syms, _, stats, eopm_len = _parse(o)
    st = {0: 'ok_eopm', 1: 'ok_size', 2: 'need_more'}.get(status) or 'error:' + _REASON[reason]
    return _lz.Result(symbols=symbols_from_records(syms) if collect == 'full' else None, stats=stats, out=out,
                      consumed=consumed, status=st, eopm_len=None if eopm_len < 0 else eopm_len)

def lzma2_decode(data, dict_size, preset_dict=b"", collect='stats'):
    from . import lzma2 as _l2
    cl = {'full': 2, 'stats': 1, None: 0}[collect]
    pd = bytes(preset_dict)
    o = _run(["d2", dict_size, len(pd), cl], pd + bytes(data))
    status, reason, consumed, out, syms, crecs, stats, _ = _parse(o)
    if status == 0:
        st = 'ok'
    elif status == 2:
        st = 'need_more'
    else:
        r = _REASON[reason]
        st = 'error:' + r if reason in (10, 11, 12, 13) else 'error:chunk:' + r
    chunks = []
    for rec in crecs:
        ctl = rec[1]
        if ctl == 0:
            kind, reset = 'end', None
        elif ctl < 0x80:
            kind = 'invalid' if ctl >= 3 else 'uncompressed'
            reset = None if ctl >= 3 else ('dict' if ctl == 1 else 'none')
        else:
            kind, reset = 'lzma', _l2.LEVEL_NAME[(ctl >> 5) & 3]
        if rec[17] == 0:
            cst = 'ok'
        elif rec[17] < 0:
            cst = 'incomplete'
        else:
            r = _REASON[rec[18]]
            cst = 'error:' + r if rec[18] in (10, 11, 12, 13) else 'error:chunk:' + r
        ev = dict(offset=rec[0], control=ctl, kind=kind, reset=reset,
                  usize=None if rec[3] < 0 else rec[3], csize=None if rec[4] < 0 else rec[4],
                  props=None if rec[2] < 0 else rec[2], status=cst, stats=None, symbols=None, out_len=rec[19])
        if rec[20]:
            ev['stats'] = dict(lit=rec[7], match=rec[8], rep=list(rec[9:13]), shortrep=rec[13], eopm=rec[21],
                               max_dist=rec[14], max_len=rec[15], min_slack=None if rec[16] < 0 else rec[16])
            if collect == 'full':
                ev['symbols'] = symbols_from_records(syms, rec[5], rec[6])
        chunks.append(ev)
    return _l2.Lzma2Result(out, chunks, st, consumed)

def crc64(data):
    return int(_run(["crc64"], bytes(data)).strip(), 16)
