"""C05 replay phases (worker processes, see c03phases.py for the protocol).

For every base file TLC named, EVERY bit of every field is flipped, a byte is inserted / deleted at EVERY offset and
the file is cut at EVERY length; each concrete mutant is mapped to the abstract (field, class) of spec/XzFault.tla /
spec/LzFault.tla and the real decoder's (return code, output == original) must be a member of the set the model admits.
"""
import json, os, random, struct, sys, ctypes as C
from harness.pydrv.c03phases import RecCtx, MachineryError

HERE = os.path.dirname(os.path.dirname(os.path.dirname(os.path.abspath(__file__))))

# model field name -> glue field-map name(s)
def field_ranges(af, fmap):
    """[(s, b, f, offset, length)] for the fields of XzFile.tla Fields(), computed from glue's field map"""
    names = {nm: (o, l) for nm, o, l in fmap}
    out = []
    for si, s in enumerate(af['streams']):
        p = "s%d." % si
        def add(b, f, nm, nm2=None):
            o, l = names[nm]
            if nm2:
                o2, l2 = names[nm2]
                l = o2 - o
            if l > 0:
                out.append((si + 1, b, f, o, l))
        add(0, "h.magic", p + "header.magic"); add(0, "h.flags", p + "header.flags"); add(0, "h.crc32", p + "header.crc32")
        for bi, blk in enumerate(s['blocks']):
            q = p + "b%d." % bi
            add(bi + 1, "bh.size", q + "header.size"); add(bi + 1, "bh.flags", q + "header.flags")
            if q + "header.compressed_size" in names: add(bi + 1, "bh.cs", q + "header.compressed_size")
            if q + "header.uncompressed_size" in names: add(bi + 1, "bh.us", q + "header.uncompressed_size")
            add(bi + 1, "bh.filters", q + "header.f0.id", q + "header.padding")
            add(bi + 1, "bh.padding", q + "header.padding"); add(bi + 1, "bh.crc32", q + "header.crc32")
            add(bi + 1, "b.data", q + "data"); add(bi + 1, "b.padding", q + "padding"); add(bi + 1, "b.check", q + "check")
        add(0, "i.indicator", p + "index.indicator"); add(0, "i.count", p + "index.count")
        if s['irecs']:
            add(0, "i.records", p + "index.r0.unpadded", p + "index.padding")
        add(0, "i.padding", p + "index.padding"); add(0, "i.crc32", p + "index.crc32")
        add(0, "f.crc32", p + "footer.crc32"); add(0, "f.backward_size", p + "footer.backward_size")
        add(0, "f.flags", p + "footer.flags"); add(0, "f.magic", p + "footer.magic")
        if p + "padding" in names:
            add(0, "s.padding", p + "padding")
    return out

def base_key(af):
    return "%d/%s" % (af['streams'][0]['check'], ";".join(",".join(str(b['did']) for b in s['blocks']) for s in af['streams']))

def crc_group(rngs, s, b, f):
    """(start, end, crc_offset) of the CRC32-protected group the field belongs to"""
    d = {(x[0], x[1], x[2]): (x[3], x[4]) for x in rngs}
    if f.startswith("h."):
        o, l = d[(s, 0, "h.flags")]; return o, o + l, d[(s, 0, "h.crc32")][0]
    if f.startswith("bh."):
        o, _ = d[(s, b, "bh.size")]; c, _ = d[(s, b, "bh.crc32")]; return o, c, c
    if f.startswith("i."):
        o, _ = d[(s, 0, "i.indicator")]; c, _ = d[(s, 0, "i.crc32")]; return o, c, c
    if f.startswith("f."):
        o, _ = d[(s, 0, "f.backward_size")]; e = d[(s, 0, "f.flags")]; return o, e[0] + e[1], d[(s, 0, "f.crc32")][0]
    return None

def nonmin_insert(buf, q, grp):
    """the VLI at q rewritten with the same value in a non-minimal encoding (one byte inserted); returns the moved CRC32 group"""
    e = q
    while buf[e] & 0x80:
        e += 1
    buf[e] |= 0x80
    buf.insert(e + 1, 0x00)
    a, z, c = grp
    return (a, z + 1, c + 1)

def fix_crc(buf, grp):
    from harness.glue import crc as gcrc
    a, e, c = grp
    buf[c:c + 4] = struct.pack("<I", gcrc.crc32(bytes(buf[a:e])))

class Judge:
    def __init__(self, ctx, table, label):
        self.ctx = ctx; self.table = table; self.label = label
        self.seen = set(); self.n = 0; self.classes = set()
    def admissible(self, bk, kind, s, b, f, cls, fk="c1i0"):
        return self.table.get("|".join([fk, bk, kind, str(s), str(b), f, cls]))
    def check(self, api, bk, kind, s, b, f, cls, ret, same, where, data_hex=None, extra_ok=(), fk="c1i0"):
        self.n += 1
        adm = self.admissible(bk, kind, s, b, f, cls, fk)
        if fk == "c1i0":
            self.last_adm = adm
        else:
            self.adm_single = adm if fk == "c0i0" else getattr(self, "adm_single", None)
        if adm is None:
            raise MachineryError("the model has no entry for %s" % "|".join([bk, kind, str(s), str(b), f, cls]))
        self.classes.add((bk, kind, f, cls))
        if api.startswith("buffer"):
            adm = [[{"STREAM_END": "OK", "BUF_ERROR": "DATA_ERROR"}.get(r, r), sm] for r, sm in adm]
        ok = any(ret == r and (r not in ("STREAM_END", "OK") or same == sm) for r, sm in adm) or ret in extra_ok
        if not ok:
            succ = ret in ("STREAM_END", "OK")
            key = "%s:%s:%s:%s:%s->%s%s" % (self.label, api, kind, f, cls, ret, "" if not succ else (":same" if same else ":DIFFERENT-DATA"))
            if key not in self.seen:
                self.seen.add(key)
                self.ctx.violation(key, "%s, base %s, %s of %s (%s) %s: returned %s%s; the model admits %s" % (
                    api, bk, kind, f, cls, where, ret, (" with the original data" if same else " with OTHER data") if succ else "", adm),
                    dict(kind="c05", base=bk, fault=dict(kind=kind, s=s, b=b, f=f, cls=cls), where=where, bytes=data_hex))

def classify_payload(gl2, data_field, rest, orig_out):
    """abstract class of a damaged Compressed Data field (glue's LZMA2 judge)"""
    r = gl2.decode(bytes(data_field) + bytes(rest), 4096, collect=None)
    n = len(data_field)
    if r.status == 'ok' and r.consumed == n:
        if r.out == orig_out:
            return "same"
        return "other" if len(r.out) == len(orig_out) else "length"
    if r.status == 'ok' or r.status == 'need_more':
        return "frame"
    # an error found inside the field; errors that need bytes beyond it are framing
    return "error" if r.consumed <= n else "frame"

def xz_faults(ctx, D, lz, bases, table, cat, start=0, cli=None, heavy=False):
    from harness.glue import lzma2 as gl2, xz as gxz
    J = Judge(ctx, table, "xz")
    total = 0
    for idx in range(start, len(bases)):
        af = bases[idx]['file']
        bk = base_key(af)
        ctx.begin(idx, dict(kind="xzbase", base=bk))
        rng = random.Random(ctx.seed * 31 + idx)
        data, fmap, meaning = D.concretise_file(af, cat, rng)
        orig = b"".join(meaning)
        rngs = field_ranges(af, fmap)
        # the model's field layout must be the concrete one (binds Fields() of XzFile.tla to the bytes)
        mf = [(x['s'], x['b'], x['f'], x['len']) for x in bases[idx]['fields']]
        cf = [(s, b, f, l) for s, b, f, o, l in rngs]
        if mf != cf or sum(l for *_, l in cf) != len(data):
            raise MachineryError("field layout of the model differs from the bytes: %s vs %s" % (mf, cf))
        cap = len(orig) + 4096
        def run(buf, trunc=False):
            r1 = D.buffer_decode(bytes(buf), lz.CONCATENATED, out_cap=cap)
            return r1
        def run_code(buf):
            return D.decode_stream(bytes(buf), lz.CONCATENATED, out_cap=cap)
        first_stream = b"".join(meaning[:len(af['streams'][0]['blocks'])])
        def lattice(kind, s, b, f, cls, buf, where):
            """the same mutant under the other flag sets (no LZMA_CONCATENATED: only the first Stream is asked for; LZMA_IGNORE_CHECK)"""
            for cc, ig in ((0, 0), (1, 1), (0, 1)):
                fk = "c%di%d" % (cc, ig)
                fv = (lz.CONCATENATED if cc else 0) | (lz.IGNORE_CHECK if ig else 0)
                r, o, _ = D.buffer_decode(bytes(buf), fv, out_cap=cap)
                J.check("buffer/" + fk, bk, kind, s, b, f, cls, r, o == (orig if cc else first_stream), where + " (flags %s)" % fk, bytes(buf).hex() if len(buf) < 600 else None, fk=fk)
        def run_mt(buf, slices=None):
            return D.decode_stream(bytes(buf), lz.CONCATENATED, mt=2, slices=slices, out_cap=cap)
        def run_st(buf, slices=None):
            return D.decode_stream(bytes(buf), lz.CONCATENATED, slices=slices, out_cap=cap)
        def sliced(api_tag, kind, s, b, f, cls, buf, splits, where):
            """the same mutant with the input split in two at each of `splits`, and byte by byte, through both stream decoders:
            the verdict must not depend on how the application cuts its input"""
            for sp in list(splits) + ["bytewise"]:
                sl = [1] * len(buf) if sp == "bytewise" else [sp]
                if sp != "bytewise" and not 0 < sp < len(buf):
                    continue
                r1, o1, _, _ = run_mt(buf, sl)
                J.check("mt/split", bk, kind, s, b, f, cls, r1, o1 == orig, "%s, input split at %s" % (where, sp), bytes(buf).hex() if len(buf) < 600 else None)
                r2, o2, _, _ = run_st(buf, sl)
                J.check("code/split", bk, kind, s, b, f, cls, r2, o2 == orig, "%s, input split at %s" % (where, sp), bytes(buf).hex() if len(buf) < 600 else None)
        # sanity: the undamaged file, also with the input cut in two at EVERY offset
        r, o, _ = run(data)
        J.check("buffer", bk, "none", 0, 0, "", "", r, o == orig, "undamaged")
        sliced("none", "none", 0, 0, "", "", data, range(1, len(data)), "undamaged")
        # extents of the Blocks (for the Block-level API)
        extent = {}
        for (s_, b_, f_, off_, ln_) in rngs:
            if b_ > 0:
                a0, a1 = extent.get((s_, b_), (off_, off_ + ln_))
                extent[(s_, b_)] = (min(a0, off_), max(a1, off_ + ln_))
        hascheck = all(st['check'] in (1, 4, 10) for st in af['streams'])
        def block_api(kind, s, b, f, cls, buf, where):
            """the damaged Block alone through lzma_block_header_decode + lzma_block_decoder (lzma_block in non-zeroed memory)"""
            if not hascheck or b == 0 or f == "bh.size" or kind not in ("flip", "over"):
                return
            a0, a1 = extent[(s, b)]
            hs = (buf[a0] + 1) * 4
            chk = af['streams'][s - 1]['check']
            r, o, _, _ = D.block_decode(bytes(buf[a0:a0 + hs]), bytes(buf[a0 + hs:a1]), chk, out_cap=cap)
            code = r.split("_", 1)[1] if r.startswith(("HDR_", "INIT_")) else r
            same = o == meaning_of[(s, b)]
            adm = J.admissible(bk, kind, s, b, f, cls) or []
            J.n += 1
            ok = any(code == rr and (rr != "STREAM_END" or same == sm) for rr, sm in adm) or (code == "BUF_ERROR" and any(rr != "STREAM_END" for rr, sm in adm))
            if not ok:
                succ = code == "STREAM_END"
                key = "xz:block_api:%s:%s:%s->%s%s" % (kind, f, cls, code, "" if not succ else (":same" if same else ":DIFFERENT-DATA"))
                if key not in J.seen:
                    J.seen.add(key)
                    ctx.violation(key, "Block s%d.b%d alone (lzma_block_header_decode + lzma_block_decoder, lzma_block in non-zeroed memory), base %s, %s of %s (%s) %s: %s%s; the model admits %s" % (
                        s, b, bk, kind, f, cls, where, r, (" with the Block's data" if same else " with OTHER data") if succ else "", adm), dict(kind="c05", base=bk, bytes=bytes(buf).hex()))
        meaning_of = {}
        k_ = 0
        for si_, s_ in enumerate(af['streams']):
            for bi_, b_ in enumerate(s_['blocks']):
                meaning_of[(si_ + 1, bi_ + 1)] = meaning[k_]; k_ += 1
        blocks_out = {}
        bycat = {e['did']: e for e in cat}
        k = 0
        for si, s in enumerate(af['streams']):
            for bi, b in enumerate(s['blocks']):
                blocks_out[(si + 1, bi + 1)] = bycat[b['did']]['out']; k += 1
        for (s, b, f, off, ln) in rngs:
            # ---------------- every bit
            for i in range(ln):
                for bit in range(8):
                    buf = bytearray(data)
                    buf[off + i] ^= 1 << bit
                    v0, v1 = data[off + i], buf[off + i]
                    if f in ("h.magic", "f.magic"):
                        cls = "magic"
                    elif f in ("h.flags", "f.flags"):
                        cls = "reserved" if (i == 0 or bit >= 4) else "check"
                    elif f in ("h.crc32", "bh.crc32", "i.crc32", "f.crc32", "bh.cs", "bh.us", "bh.filters"):
                        cls = "crc"
                    elif f == "bh.size":
                        cls = "zero" if v1 == 0 else ("beyond" if (v1 + 1) * 4 > len(data) - off else ("bigger" if v1 > v0 else "smaller"))
                    elif f == "bh.flags":
                        cls = "reserved" if (1 << bit) & 0x3C else "crc"
                    elif f in ("bh.padding", "b.padding", "i.padding", "i.indicator", "s.padding"):
                        cls = "nonzero"
                    elif f == "b.check":
                        cls = "check"
                    elif f in ("i.count", "i.records"):
                        cls = "vli" if bit == 7 else "value"
                    elif f == "f.backward_size":
                        cls = "value"
                    elif f == "b.data":
                        cls = classify_payload(gl2, buf[off:off + ln], buf[off + ln:], blocks_out[(s, b)])
                    else:
                        raise MachineryError("no classifier for field " + f)
                    r, o, _ = run(buf)
                    J.check("buffer", bk, "flip", s, b, f, cls, r, o == orig, "byte %d bit %d" % (off + i, bit), bytes(buf).hex() if len(buf) < 600 else None)
                    lattice("flip", s, b, f, cls, buf, "byte %d bit %d" % (off + i, bit))
                    if (i * 8 + bit) % 5 == 0 or f == "b.data":
                        r2, o2, _, _ = run_code(buf)
                        J.check("code", bk, "flip", s, b, f, cls, r2, o2 == orig, "byte %d bit %d" % (off + i, bit), bytes(buf).hex() if len(buf) < 600 else None,
                                extra_ok=("OUT_FULL",))
                    if b > 0 and ((i * 8 + bit) % 3 == 0 or f in ("b.check", "b.padding")):
                        block_api("flip", s, b, f, cls, buf, "byte %d bit %d" % (off + i, bit))
                    if f == "s.padding":
                        sliced("flip", "flip", s, b, f, cls, buf, range(off - 1, off + ln + 2), "byte %d bit %d" % (off + i, bit))
                    elif (i * 8 + bit) % 41 == 0:
                        sliced("flip", "flip", s, b, f, cls, buf, [off + i, off + i + 1], "byte %d bit %d" % (off + i, bit))
                    if cli is not None and (i * 8 + bit) % cli['every'] == cli['phase']:
                        cli['jobs'].append((bytes(buf), orig, "xz:flip:%s:%s" % (f, cls), J.last_adm))
                        cli['jobs'].append((bytes(buf), first_stream, "xz-single:flip:%s:%s" % (f, cls), J.adm_single))
            # ---------------- overwrites with the CRC32 recomputed
            grp = crc_group(rngs, s, b, f)
            def over(cls, edit, where):
                buf = bytearray(data)
                g2 = edit(buf)
                if g2 is False:
                    return
                fix_crc(buf, g2 if isinstance(g2, tuple) else grp)
                r, o, _ = run(buf)
                J.check("buffer", bk, "over", s, b, f, cls, r, o == orig, where, bytes(buf).hex() if len(buf) < 600 else None)
                lattice("over", s, b, f, cls, buf, where)
                r2, o2, _, _ = run_code(buf)
                J.check("code", bk, "over", s, b, f, cls, r2, o2 == orig, where, bytes(buf).hex() if len(buf) < 600 else None)
                r3, o3, _, _ = D.decode_stream(bytes(buf), lz.CONCATENATED, mt=2, out_cap=cap)
                J.check("mt", bk, "over", s, b, f, cls, r3, o3 == orig, where, bytes(buf).hex() if len(buf) < 600 else None)
                block_api("over", s, b, f, cls, buf, where)
                if cli is not None:
                    cli['jobs'].append((bytes(buf), orig, "xz:over:%s:%s" % (f, cls), J.last_adm))
            S = af['streams'][s - 1]
            from harness.glue import crc as gcrc
            if f == "h.flags" or f == "f.flags":
                chk = data[off + 1] & 0x0F
                for v in ([1, chk], [0, chk | 0x10], [0, chk | 0x80], [0x40, chk]):
                    over("reserved", lambda buf, v=v: buf.__setitem__(slice(off, off + 2), bytes(v)), "flags %s" % v)
                for c in range(16):
                    if c == chk:
                        continue
                    same_size = gcrc.check_size(c) == gcrc.check_size(chk)
                    if f == "h.flags":
                        if same_size:
                            over("check_same_size", lambda buf, c=c: buf.__setitem__(off + 1, c), "check id %d" % c)
                        elif c in (0, 1, 4, 10):
                            over("check_other_size", lambda buf, c=c: buf.__setitem__(off + 1, c), "check id %d" % c)
                    elif c in (0, 1, 2, 4, 10, 15):
                        over("check", lambda buf, c=c: buf.__setitem__(off + 1, c), "check id %d" % c)
            elif f == "bh.flags":
                for m in (0x04, 0x08, 0x10, 0x20):
                    over("reserved", lambda buf, m=m: buf.__setitem__(off, buf[off] | m), "flag bit %#x" % m)
            elif f in ("bh.cs", "bh.us", "i.count"):
                def inc(buf):
                    if buf[off + ln - 1] & 0x7F == 0x7F:
                        return False
                    buf[off + ln - 1] += 1       # the value grows, the VLI keeps its length
                over("value", inc, "value + 1")
                if f == "i.count":
                    over("nonmin", lambda buf: nonmin_insert(buf, off, grp), "Number of Records in a non-minimal encoding")
                else:
                    # the same value one byte longer; the byte comes out of the Header Padding (the header keeps its size)
                    pd = [x for x in rngs if x[0] == s and x[1] == b and x[2] == "bh.padding"]
                    if pd and pd[0][4] >= 1:
                        def nm(buf, pd=pd[0]):
                            v = bytes(buf[off:off + ln])
                            new = v[:-1] + bytes([v[-1] | 0x80, 0x00])
                            rest = bytes(buf[off + ln:pd[3] + pd[4] - 1])      # what lies between the field and the last padding byte
                            buf[off:pd[3] + pd[4]] = new + rest
                        over("nonmin", nm, "size field in a non-minimal encoding")
            elif f == "bh.filters":
                over("unknown_id", lambda buf: buf.__setitem__(off, 0x22 if buf[off] != 0x22 else 0x23), "first Filter ID := unassigned")
                # the LZMA2 dictionary size byte is the last byte of the filters: another valid size means the same data
                over("benign", lambda buf: buf.__setitem__(off + ln - 1, buf[off + ln - 1] + 2), "LZMA2 dictionary size + 2 steps")
            elif f in ("bh.padding", "i.padding"):
                for i in range(ln):
                    for v in (1, 0x80, 0xFF):
                        over("nonzero", lambda buf, i=i, v=v: buf.__setitem__(off + i, v), "padding byte %d := %#x" % (i, v))
            elif f == "i.records":
                vstarts = [off]
                for q in range(off, off + ln - 1):
                    if not data[q] & 0x80:
                        vstarts.append(q + 1)
                over("nonmin", lambda buf: nonmin_insert(buf, vstarts[0], grp), "first Unpadded Size in a non-minimal encoding")
                over("nonmin", lambda buf: nonmin_insert(buf, vstarts[-1], grp), "last Uncompressed Size in a non-minimal encoding")
                def first_up(buf):
                    if buf[off] & 0x80 or buf[off] + 4 > 0x7F:
                        # multi-byte Unpadded Size: bump the low 7 bits
                        if buf[off] & 0x7F > 0x7A:
                            return False
                    buf[off] += 4
                over("value", first_up, "first Unpadded Size + 4")
                def last_up(buf):
                    if buf[off + ln - 1] & 0x7F == 0x7F:
                        return False
                    buf[off + ln - 1] += 1
                over("value", last_up, "last Uncompressed Size + 1")
                if len(S['irecs']) >= 2 and S['irecs'][0] != S['irecs'][1]:
                    from harness.glue import vli as gvli
                    r0 = gvli.encode(S['irecs'][0]['u']) + gvli.encode(S['irecs'][0]['n'])
                    r1 = gvli.encode(S['irecs'][1]['u']) + gvli.encode(S['irecs'][1]['n'])
                    if len(r0) + len(r1) == ln:
                        over("swap", lambda buf: buf.__setitem__(slice(off, off + ln), r1 + r0), "Records swapped")
            elif f == "f.backward_size":
                def bs(buf):
                    v = struct.unpack_from("<I", buf, off)[0]
                    struct.pack_into("<I", buf, off, v + 1)
                over("value", bs, "Backward Size + 4 bytes")
                for k in (1, 2, 3):
                    def wrap(buf, k=k):
                        v = struct.unpack_from("<I", buf, off)[0]
                        struct.pack_into("<I", buf, off, (v + (k << 30)) & 0xFFFFFFFF)
                    over("wrap", wrap, "stored Backward Size + %d * 2^30" % k)
            # ---------------- one byte inserted / deleted at every offset of the field
            for i in range(ln):
                for kind in ("ins", "del"):
                    variants = [(0x00, "zero"), (0xA7, "x")] if kind == "ins" else [(None, "")]
                    for val, tag in variants:
                        buf = bytearray(data)
                        if kind == "ins":
                            buf.insert(off + i, val)
                        else:
                            del buf[off + i]
                        if f == "s.padding":
                            cls = "zero" if (kind == "del" or val == 0) else None
                            if cls is None:
                                # a non-zero byte inside Stream Padding is the flip class "nonzero"
                                r, o, _ = run(buf)
                                J.check("buffer", bk, "flip", s, b, f, "nonzero", r, o == orig, "insert %#x at %d" % (val, off + i))
                                continue
                        else:
                            cls = "shift"
                        r, o, _ = run(buf)
                        J.check("buffer", bk, kind, s, b, f, cls, r, o == orig, "%s at %d %s" % (kind, off + i, tag), bytes(buf).hex() if len(buf) < 600 else None)
                        lattice(kind, s, b, f, cls, buf, "%s at %d %s" % (kind, off + i, tag))
                        if i % 3 == 0:
                            r2, o2, _, _ = run_code(buf)
                            J.check("code", bk, kind, s, b, f, cls, r2, o2 == orig, "%s at %d %s" % (kind, off + i, tag), None, extra_ok=("OUT_FULL",))
                        if f == "s.padding":
                            # Stream Padding whose length was damaged, arriving in two pieces cut at every place in and around it
                            sliced(kind, kind, s, b, f, cls, buf, range(off - 1, off + ln + 3), "%s at %d %s" % (kind, off + i, tag))
                        elif i % 11 == 0:
                            sliced(kind, kind, s, b, f, cls, buf, [off + i], "%s at %d %s" % (kind, off + i, tag))
                        if cli is not None and i % cli['every'] == cli['phase']:
                            cli['jobs'].append((bytes(buf), orig, "xz:%s:%s" % (kind, f), J.last_adm))
            # ---------------- the file cut at every length inside the field
            for i in range(ln):
                w = "before" if i == 0 else ("inside" if i < ln - 1 or ln == 2 else "last")
                if f == "s.padding" and i > 0 and i % 4 == 0:
                    w = "aligned"          # whole zero words remain: a shorter valid file
                cut = data[:off + i]
                r2, o2, _, _ = run_code(cut)
                adm_w = w if J.admissible(bk, "trunc", s, b, f, w) is not None else "inside"
                J.check("code", bk, "trunc", s, b, f, adm_w, r2, o2 == orig, "cut at %d" % (off + i))
                r, o, _ = run(cut)
                J.check("buffer", bk, "trunc", s, b, f, adm_w, r, o == orig, "cut at %d" % (off + i))
                lattice("trunc", s, b, f, adm_w, cut, "cut at %d" % (off + i))
                if f == "s.padding":
                    sliced("trunc", "trunc", s, b, f, adm_w, cut, range(off - 1, off + i), "cut at %d" % (off + i))
                if not orig.startswith(o2):
                    ctx.violation("xz:trunc:output-not-prefix:%s" % f, "cut at %d: the output delivered before the end of input is not a prefix of the data" % (off + i),
                                  dict(kind="c05", base=bk, cut=off + i))
                if cli is not None and i % cli['every'] == cli['phase']:
                    cli['jobs'].append((bytes(cut), orig, "xz:trunc:%s" % f, J.last_adm))
        # ---------------- thorough: random multi-byte damage (property only: never success with other data)
        if heavy:
            for t in range(20000):
                buf = bytearray(data)
                kind = rng.choice(("overwrite", "insert", "delete"))
                p = rng.randrange(len(buf)); n = rng.randrange(1, 9)
                if kind == "overwrite":
                    for q in range(p, min(len(buf), p + n)):
                        buf[q] = rng.randrange(256)
                elif kind == "insert":
                    buf[p:p] = bytes(rng.randrange(256) for _ in range(n))
                else:
                    del buf[p:p + n]
                if bytes(buf) == data:
                    continue
                r, o, _ = run(buf)
                J.n += 1
                hascheck = all(st['check'] in (1, 4, 10) for st in af['streams'])
                if r == "OK" and o != orig and hascheck:
                    ctx.violation("xz:random:%s:DIFFERENT-DATA" % kind, "random %s of %d bytes at %d: success with other data" % (kind, n, p), dict(kind="c05", base=bk, bytes=bytes(buf).hex()))
        total += 1
        ctx.case(key=("xzbase", bk))
    return J.n, sorted("|".join(x) for x in J.classes)

# ------------------------------------------------------------------------------------------ .lz / .lzma
def flags_key(fl):
    return "c%di%d" % (1 if fl['concat'] else 0, 1 if fl['ignoreCheck'] else 0)

def lz_key(fmt, base, kind, m, f, cls, fl=None):
    fk = flags_key(fl) if fl else "c1i0"
    if fmt == "lz":
        bk = "lz:" + ",".join(str(x['ver']) for x in base)
    else:
        bk = "lzma:%s:%s" % (base['usize'], "eopm" if base['eopm'] else "noeopm")
    return "|".join([fk, bk, kind, str(m), "0", f, cls])

def lzma_lz_faults(ctx, D, lz, bases, table, start=0, cli=None):
    from harness.glue import lzip as glzip, alone as galone, lzma as glz
    J = Judge(ctx, table, "lz")
    MEMLIMIT = 1 << 27
    def dec(fn, data, cap, *args):
        c = lz.Coder()
        r = c.init(fn, *args)
        if r != lz.OK:
            c.end(); return "INIT_" + lz.retname(r), b""
        ret, out, _, _ = D.drive(c, data, out_cap=cap)
        c.end()
        return ret, out
    for idx in range(start, len(bases)):
        fmt, base = bases[idx]['fmt'], bases[idx]['base']
        ctx.begin(idx, dict(kind="lzbase", fmt=fmt, base=base))
        rng = random.Random(ctx.seed * 131 + idx)
        if fmt == "lz":
            texts = []
            members = []
            ranges = []      # (m, f, off, len)
            pos = 0
            for mi, M in enumerate(base):
                text = bytes(rng.choice(b"abcdefgh \n") for _ in range(rng.randrange(20, 60)))
                mb = glzip.build_member(data=text, version=M['ver'], dict_size=1 << 16)
                texts.append(text); members.append(mb)
                foot = 20 if M['ver'] == 1 else 12
                pl = len(mb) - 6 - foot
                lay = [("z.magic", 4), ("z.version", 1), ("z.dict", 1), ("z.payload", pl), ("z.crc32", 4), ("z.usize", 8)] + ([("z.msize", 8)] if M['ver'] == 1 else [])
                for f, l in lay:
                    ranges.append((mi + 1, f, pos, l)); pos += l
            data = b"".join(members)
            orig = b"".join(texts)
            bk = "lz:" + ",".join(str(x['ver']) for x in base)
            # the flag lattice: LZMA_CONCATENATED x LZMA_IGNORE_CHECK, through both entry points
            apis = []
            for cc in (1, 0):
                for ig in (0, 1):
                    fv = (lz.CONCATENATED if cc else 0) | (lz.IGNORE_CHECK if ig else 0)
                    fk = "c%di%d" % (cc, ig)
                    apis.append(("lzip/" + fk, lambda d, cap, fv=fv: dec("lzma_lzip_decoder", d, cap, MEMLIMIT, fv), fk))
                    apis.append(("auto/" + fk, lambda d, cap, fv=fv: dec("lzma_auto_decoder", d, cap, MEMLIMIT, fv), fk))
        else:
            text = bytes(rng.choice(b"abcdefgh \n") for _ in range(rng.randrange(30, 70)))
            syms = glz.greedy_parse(text, dict_size=1 << 16)
            data = galone.build(symbols=syms, lc=3, lp=0, pb=2, dict_size=1 << 16, usize=(len(text) if base['usize'] == "known" else None), eopm=base['eopm'])
            orig = text
            ranges = [(1, "a.props", 0, 1), (1, "a.dict", 1, 4), (1, "a.usize", 5, 8), (1, "a.payload", 13, len(data) - 13)]
            bk = "lzma:%s:%s" % (base['usize'], "eopm" if base['eopm'] else "noeopm")
            apis = [("alone", lambda d, cap: dec("lzma_alone_decoder", d, cap, MEMLIMIT), "c1i0"),
                    ("auto", lambda d, cap: dec("lzma_auto_decoder", d, cap, MEMLIMIT, lz.CONCATENATED), "c1i0")]
        cap = len(orig) + 4096
        def expected(fk):
            """what a decoder with these flags is asked to deliver: every member, or (no LZMA_CONCATENATED) only the first"""
            return texts[0] if (fmt == "lz" and fk.startswith("c0")) else orig
        def judge(api, kind, m, f, cls, ret, out, where, buf, fk="c1i0"):
            J.n += 1
            adm = table.get("|".join([fk, bk, kind, str(m), "0", f, cls]))
            J.last_adm = adm
            if adm is None:
                raise MachineryError("the model has no entry for %s" % "|".join([fk, bk, kind, str(m), "0", f, cls]))
            J.classes.add((bk, kind, f, cls))
            same = out == expected(fk)
            ok = any(ret == r and (r != "STREAM_END" or same == sm) for r, sm in adm)
            # a member-wise prefix is what LooseTrailing admits: same=false rows of the model with STREAM_END
            if ok and ret == "STREAM_END" and not same and fmt == "lz" and fk.endswith("i0"):
                pref = [b"".join(texts[:k]) for k in range(1, len(texts))]
                if out not in pref:
                    ok = False
            if not ok:
                succ = ret == "STREAM_END"
                key = "%s:%s:%s:%s:%s->%s%s" % (fmt, api, kind, f, cls, ret, "" if not succ else (":same" if same else ":DIFFERENT-DATA"))
                if key not in J.seen:
                    J.seen.add(key)
                    ctx.violation(key, "%s (flags %s) on %s, %s of %s (%s) %s: %s%s; the model admits %s" % (api, fk, bk, kind, f, cls, where, ret,
                                  (" with the original data" if same else " with OTHER data (%r)" % out[:40]) if succ else "", adm),
                                  dict(kind="c05", base=bk, where=where, bytes=bytes(buf).hex()))
        for name, fn, fk in apis:
            r, o = fn(data, cap)
            judge(name, "none", 0, "", "", r, o, "undamaged", data, fk)
        for (m, f, off, ln) in ranges:
            for i in range(ln):
                for bit in range(8):
                    buf = bytearray(data); buf[off + i] ^= 1 << bit
                    if fmt == "lz":
                        if f == "z.magic": cls = "magic"
                        elif f == "z.version":
                            v1 = buf[off + i]; v0 = data[off + i]
                            cls = "unsupported" if v1 > 1 else ("v1_to_v0" if v0 == 1 else "v0_to_v1")
                        elif f == "z.dict":
                            ds = buf[off + i]; b2 = ds & 0x1F; fr = ds >> 5
                            if b2 < 12 or b2 > 29 or (b2 == 12 and fr > 0): cls = "invalid"
                            else:
                                new = (1 << b2) - (fr << (b2 - 4)); cls = "larger" if new > (1 << 16) else "smaller"
                        elif f == "z.payload":
                            g = glzip.parse(bytes(buf), concatenated=True, strict_eos=False)
                            # classify by the independent judge: what happened to THIS member's LZMA stream
                            cls = classify_lz_payload(glzip, glz, buf, off, ln, texts[m - 1])
                        else: cls = "value"
                    else:
                        if f == "a.props":
                            pb = buf[0]
                            cls = "invalid" if pb > 224 or (pb % 9) + ((pb // 9) % 5) > 4 else "other"
                        elif f in ("a.dict", "a.usize"): cls = "any"
                        else:
                            cls = "same" if galone.parse(bytes(buf)).verdict == 'ok' and galone.parse(bytes(buf)).out == orig else "garbage"
                    adm_by = {}
                    for name, fn, fk in apis:
                        r, o = fn(bytes(buf), cap)
                        judge(name, "flip", m, f, cls, r, o, "byte %d bit %d" % (off + i, bit), buf, fk)
                        adm_by[fk] = J.last_adm
                    if cli is not None and (i * 8 + bit) % cli['every'] == cli['phase']:
                        cli['jobs'].append((bytes(buf), orig, "%s:flip:%s:%s" % (fmt, f, cls), adm_by["c1i0"]))
                        if "c0i0" in adm_by:
                            cli['jobs'].append((bytes(buf), expected("c0i0"), "%s-single:flip:%s:%s" % (fmt, f, cls), adm_by["c0i0"]))
            for i in range(ln):
                w = "before" if i == 0 else "inside"
                cut = data[:off + i]
                adm_by = {}
                for name, fn, fk in apis:
                    r, o = fn(cut, cap)
                    judge(name, "trunc", m, f, w, r, o, "cut at %d" % (off + i), cut, fk)
                    adm_by[fk] = J.last_adm
                    if not orig.startswith(o):
                        ctx.violation("%s:trunc:output-not-prefix:%s" % (fmt, f), "cut at %d: output is not a prefix of the data" % (off + i), dict(kind="c05", base=bk))
                if cli is not None and i % cli['every'] == cli['phase']:
                    cli['jobs'].append((bytes(cut), orig, "%s:trunc:%s" % (fmt, f), adm_by["c1i0"]))
                if fmt == "lz":
                    for kind in ("ins", "del"):
                        buf = bytearray(data)
                        if kind == "ins": buf.insert(off + i, 0x5A)
                        else: del buf[off + i]
                        for name, fn, fk in apis:
                            r, o = fn(bytes(buf), cap)
                            judge(name, kind, m, f, "shift", r, o, "%s at %d" % (kind, off + i), buf, fk)
        ctx.case(key=("lzbase", bk))
    return J.n, sorted("|".join(x) for x in J.classes)

def classify_lz_payload(glzip, glz, buf, off, ln, text):
    """class of a damaged LZMA1 stream of a .lz member: glue decodes the stream from its start over the rest of the file"""
    r = glz.decode(bytes(buf[off:]), 3, 0, 2, dict_size=1 << 16, usize=None, collect=None)
    if r.status == 'ok_eopm' and r.consumed == ln:
        if r.out == text:
            return "same"
        return "other" if len(r.out) == len(text) else "length"
    if r.status.startswith('error') and r.consumed <= ln:
        return "error"
    return "frame"

# ------------------------------------------------------------------------------------------ CLI
DECODING_FIELDS = ("b.data", "z.payload", "a.payload", "a.props", "a.dict", "a.usize", "z.dict", "z.version")

def run_cli(ctx, jobs, tools, workdir, par=8):
    """damaged files through the command line tools.  jobs: (bytes, orig, label, rows the model admits).
    Exit status 0 is allowed only where the model admits LZMA_STREAM_END, with the data it admits (the original, or - rows
    with same = false - whole leading members / Streams of it); otherwise the status must be 1.  Whatever was written to
    stdout must be a prefix of the original data unless the fault hits bytes that steer the decoding itself."""
    import subprocess, concurrent.futures
    def one(k):
        data = jobs[k][0]
        res = []
        for name, argv in tools:
            p = subprocess.run(argv, input=data, stdout=subprocess.PIPE, stderr=subprocess.PIPE, timeout=120)
            res.append((name, p.returncode, p.stdout))
        return k, res
    n = 0
    seen = set()
    def viol(key, detail, data):
        if key not in seen:
            seen.add(key); ctx.violation(key, detail, dict(kind="cli", bytes=data.hex()))
    with concurrent.futures.ThreadPoolExecutor(par) as ex:
        for k, res in ex.map(one, range(len(jobs))):
            data, orig, label, adm = jobs[k]
            steering = any(x in label for x in DECODING_FIELDS)
            ok_same = any(r == "STREAM_END" and sm for r, sm in adm)
            ok_diff = any(r == "STREAM_END" and not sm for r, sm in adm)
            for name, rc, out in res:
                n += 1
                if rc not in (0, 1):
                    viol("cli:%s:status%d:%s" % (name, rc, label), "%s ended with status %d on %s" % (name, rc, label), data)
                elif rc == 0:
                    if out == orig:
                        if not ok_same:
                            viol("cli:%s:exit0:%s" % (name, label), "%s exit status 0 (complete data) where the model admits only %s (%s)" % (name, adm, label), data)
                    elif not ok_diff:
                        viol("cli:%s:exit0-DIFFERENT-DATA:%s" % (name, label), "%s exit status 0 but the output is not the original data (%s)" % (name, label), data)
                    elif not steering and not orig.startswith(out):
                        viol("cli:%s:exit0-not-prefix:%s" % (name, label), "%s exit status 0 with data that is not a prefix (%s)" % (name, label), data)
                elif not steering and not orig.startswith(out):
                    viol("cli:%s:stdout-not-prefix:%s" % (name, label), "%s wrote bytes that are not a prefix of the original data (%s)" % (name, label), data)
    return n

def main():
    job = json.load(open(sys.argv[1]))
    from harness.pydrv import c03drv as D, lz
    D.ensure_loaded(job["so"])
    with open(sys.argv[2], "a") as out:
        ctx = RecCtx(out, job["seed"], job["quick"])
        ph = job["phase"]; a = job["args"]; start = job.get("start", 0)
        cli = None
        if a.get("cli_every"):
            cli = dict(every=a["cli_every"], phase=a.get("cli_phase", 0), jobs=[])
        if ph == "xzfaults":
            cat = D.build_catalogue(job["catseed"])
            n, classes = xz_faults(ctx, D, lz, a["bases"], a["table"], cat, start=start, cli=cli, heavy=a.get("heavy", False))
        elif ph == "lzfaults":
            n, classes = lzma_lz_faults(ctx, D, lz, a["bases"], a["table"], start=start, cli=cli)
        else:
            raise SystemExit(77)
        if cli is not None and cli['jobs']:
            # the library part is over: hand the CLI jobs to the parent through a side file
            with open(sys.argv[2] + ".cli", "w") as f:
                for data, orig, label, adm in cli['jobs']:
                    f.write(json.dumps([data.hex(), orig.hex(), label, adm]) + "\n")
        ctx._w(dict(e="classes", classes=classes))
        ctx._w(dict(e="done", n=n))

if __name__ == "__main__":
    try:
        main()
    except MachineryError as e:
        print("MACHINERY: %s" % e)
        sys.exit(77)
