"""C13 replay worker: executes plans (histories of lzma_index_* calls with the model's predictions, produced by
TLC from spec/GenIndex.tla / spec/EvalIndex.tla) against the real liblzma and reports every difference.

Runs as a child process (`python3 -m harness.pydrv.c13_index index <plans.json> <out.json>`) with libasan
preloaded, so that an assertion failure or sanitizer abort of the library is seen by the parent as a crash of the
plan that was running and not as a failure of the check itself.

The comparison is plain equality against values computed by TLC; nothing about the index is computed here.
"""
import ctypes as C, json, os, sys, zlib

M64 = (1 << 64) - 1

def big(x):
    """IndexBig number <<lo, mid, hi>> (base 2^21) -> int"""
    return x[0] + (x[1] << 21) + (x[2] << 42)

def limbs(n):
    return [n & 0x1FFFFF, (n >> 21) & 0x1FFFFF, n >> 42]

ST_FIELDS = [("number", "number", 0), ("blocks", "block_count", 0), ("coff", "compressed_offset", 1),
             ("uoff", "uncompressed_offset", 1), ("csize", "compressed_size", 1), ("usize", "uncompressed_size", 1),
             ("pad", "padding", 1)]
BL_FIELDS = [("nfile", "number_in_file", 0), ("cfoff", "compressed_file_offset", 1),
             ("ufoff", "uncompressed_file_offset", 1), ("nstream", "number_in_stream", 0),
             ("csoff", "compressed_stream_offset", 1), ("usoff", "uncompressed_stream_offset", 1),
             ("usize", "uncompressed_size", 1), ("unpadded", "unpadded_size", 1), ("total", "total_size", 1)]
MODES = ["any", "stream", "block", "nonempty"]
GETTERS = [("streams", "stream_count", 0), ("blocks", "block_count", 0), ("size", "size", 0), ("total", "total_size", 1),
           ("ssize", "stream_size", 1), ("fsize", "file_size", 1), ("usize", "uncompressed_size", 1)]

def lz_flags(lz, check):
    sf = lz.StreamFlags(); sf.version = 0; sf.check = check; sf.backward_size = lz.VLI_UNKNOWN
    return sf

class Mismatch(Exception):
    def __init__(self, field, detail):
        Exception.__init__(self, detail); self.field = field; self.detail = detail

class Replayer:
    def __init__(self, lz):
        self.lz = lz; self.L = lz.L()
        if self.L.lzma_index_memusage(1, 0) != 408 or self.L.lzma_index_memusage(2, 513) != 112 + 2 * 296 + 2 * 8288:
            raise RuntimeError("ABI: the structure sizes assumed by Index!MemUsage do not hold on this platform")

    # ---- comparison of one index with the model's observation
    def cmp_stream(self, it, exp, where):
        for m, c, isbig in ST_FIELDS:
            got = getattr(it.stream, c); want = big(exp[m]) if isbig else exp[m]
            if got != want:
                raise Mismatch("%s.stream.%s" % (where, c), "stream %s: %s = %d, model %d" % (exp["number"], c, got, want))
        f = exp["flags"]
        if bool(it.stream.flags) != f["set"]:
            raise Mismatch("%s.stream.flags" % where, "stream %s: flags pointer %s, model set=%s" % (exp["number"], bool(it.stream.flags), f["set"]))
        if f["set"]:
            sf = it.stream.flags.contents
            want_bs = big(f["bs"]) if f["bsk"] else self.lz.VLI_UNKNOWN
            if (sf.version, sf.check, sf.backward_size) != (f["version"], f["check"], want_bs):
                raise Mismatch("%s.stream.flags" % where, "stream %s: flags (%d,%d,%d), model (%d,%d,%d)" % (
                    exp["number"], sf.version, sf.check, sf.backward_size, f["version"], f["check"], want_bs))

    def cmp_block(self, it, exp, where):
        for m, c, isbig in BL_FIELDS:
            got = getattr(it.block, c); want = big(exp[m]) if isbig else exp[m]
            if got != want:
                raise Mismatch("%s.block.%s" % (where, c), "block %s: %s = %d, model %d" % (exp["nfile"], c, got, want))

    def observe(self, p, obs, getters_only=False):
        L = self.L
        for m, g, isbig in GETTERS:
            got = getattr(L, "lzma_index_" + g)(p); want = big(obs[m]) if isbig else obs[m]
            if got != want:
                raise Mismatch(g, "lzma_index_%s = %d, model %d" % (g, got, want))
        got = L.lzma_index_checks(p)
        if got != obs["checks"]:
            raise Mismatch("checks", "lzma_index_checks = 0x%x, model 0x%x" % (got, obs["checks"]))
        got = L.lzma_index_memused(p)
        if got != obs["mem"]:
            raise Mismatch("memused", "lzma_index_memused = %d, model %d" % (got, obs["mem"]))
        if obs.get("lite") or getters_only:
            return
        if obs["small"]:
            # lzma_index_checks() of a copy after lzma_index_stream_flags() changed the Check of its last Stream
            for c, want in obs["probe"]:
                d = L.lzma_index_dup(p, None)
                sf = lz_flags(self.lz, c)
                r = L.lzma_index_stream_flags(d, C.byref(sf)); got = L.lzma_index_checks(d)
                L.lzma_index_end(d, None)
                if r != 0 or got != want:
                    raise Mismatch("checks_after_flags", "copy + stream_flags(check %d): lzma_index_checks = 0x%x, model 0x%x" % (c, got, want))
        st = obs["st"]; bl = {b["nfile"]: b for b in obs["bl"]}
        it = self.lz.IndexIter()
        for mode, name in enumerate(MODES):
            L.lzma_index_iter_init(C.byref(it), p)
            seen = []
            limit = obs["counts"][mode] + 2
            while len(seen) < limit and not L.lzma_index_iter_next(C.byref(it), mode):
                sn = it.stream.number
                if not 1 <= sn <= len(st):
                    raise Mismatch("iter_" + name, "iteration returned stream number %d" % sn)
                self.cmp_stream(it, st[sn - 1], "iter_" + name)
                if st[sn - 1]["blocks"] == 0:
                    nb = 0
                else:
                    nb = it.block.number_in_file
                    if nb in bl:
                        self.cmp_block(it, bl[nb], "iter_" + name)
                seen.append([sn, nb])
            if len(seen) != obs["counts"][mode]:
                raise Mismatch("iter_" + name, "iteration returned %s%d items, model %d" % (
                    ">=" if len(seen) >= limit else "", len(seen), obs["counts"][mode]))
            if obs["small"]:
                if seen != obs[name]:
                    raise Mismatch("iter_" + name, "iteration order %s, model %s" % (seen, obs[name]))
            else:
                # volume plans: the model lists only sampled Blocks; the order of the numbers is checked here
                key = [x for x in seen]
                if mode != 1 and any(a[1] and b[1] and not a[1] < b[1] for a, b in zip(key, key[1:])):
                    raise Mismatch("iter_" + name, "block numbers not increasing")
                if any(not (a[0] <= b[0] if mode != 1 else a[0] < b[0]) for a, b in zip(key, key[1:])):
                    raise Mismatch("iter_" + name, "stream numbers not increasing")
        for t, b in obs["loc"]:
            L.lzma_index_iter_init(C.byref(it), p)
            r = L.lzma_index_iter_locate(C.byref(it), big(t) & M64)
            if bool(r) != (b == 0):
                raise Mismatch("locate", "locate(%d) returned %d, model block %d" % (big(t), r, b))
            if b:
                if it.block.number_in_file != b:
                    raise Mismatch("locate", "locate(%d) gave block %d, model %d" % (big(t), it.block.number_in_file, b))
                if b in bl:          # (volume plans list sampled Blocks only)
                    self.cmp_block(it, bl[b], "locate")
                    self.cmp_stream(it, st[bl[b]["s"] - 1], "locate")

    # ---- one plan
    def run_plan(self, plan, inject=None):
        """Returns None or dict(step=, key=, detail=).
        inject: random.Random or None.  With it, all calls use a counting allocator, and before some append / cat /
        dup calls the same call is first made with every allocation failing: it must return LZMA_MEM_ERROR (NULL)
        and leave every index exactly as the model predicted it before the call ("a failed call changes
        nothing"), or succeed without allocating."""
        lz = self.lz; L = self.L
        armed = [False]
        alloc = lz.CountingAllocator(fail_at=lambda n: armed[0]) if inject else None
        A = alloc.ptr() if alloc else None
        def unchanged(what):
            self.memerrs = getattr(self, "memerrs", 0) + 1
            try:
                for slot, p in reg.items():
                    if slot in last:
                        self.observe(p, last[slot])
            except Mismatch as e:
                raise Mismatch("memerr." + e.field, "after a failed allocation in %s: %s" % (what, e.detail))
        reg = {1: L.lzma_index_init(A)}
        hp = [None]
        last = {}           # slot -> last predicted observation
        it = lz.IndexIter(); it_slot = 0
        keep = []
        try:
            for n, s in enumerate(plan):
                o = s["o"]; op = o["op"]; k = o["k"]; j = o["j"]
                try:
                    ret = "OK"
                    if op == "start":
                        pass
                    elif op == "init":
                        reg[k] = L.lzma_index_init(A)
                    elif op == "end":
                        L.lzma_index_end(reg.pop(k), A); last.pop(k, None)
                        if it_slot == k:
                            it_slot = 0
                    elif op == "append":
                        r = None
                        if inject and inject.random() < 0.3:
                            armed[0] = True
                            r = L.lzma_index_append(reg[k], A, big(o["u"]) & M64, big(o["v"]) & M64)
                            armed[0] = False
                            if r == lz.MEM_ERROR:
                                unchanged("append"); r = None
                        if r is None:
                            r = L.lzma_index_append(reg[k], A, big(o["u"]) & M64, big(o["v"]) & M64)
                        ret = lz.retname(r)
                    elif op == "appendn":
                        for _ in range(o["n"]):
                            r = L.lzma_index_append(reg[k], A, big(o["u"]), big(o["v"]))
                            if r != 0:
                                ret = lz.retname(r); break
                    elif op == "flags":
                        ret = lz.retname(L.lzma_index_stream_flags(reg[k], C.byref(self.flags(o["f"]))))
                    elif op == "padding":
                        ret = lz.retname(L.lzma_index_stream_padding(reg[k], big(o["u"]) & M64))
                    elif op == "cat":
                        r = None
                        if inject and inject.random() < 0.5:
                            armed[0] = True
                            r = L.lzma_index_cat(reg[k], reg[j], A)
                            armed[0] = False
                            if r == lz.MEM_ERROR:
                                unchanged("cat"); r = None
                        if r is None:
                            r = L.lzma_index_cat(reg[k], reg[j], A)
                        ret = lz.retname(r)
                        if ret == "OK":
                            reg.pop(j); last.pop(j, None)
                            if it_slot == j:
                                it_slot = 0
                    elif op == "catn":
                        for _ in range(o["n"]):
                            x = L.lzma_index_init(A)
                            for _ in range(o["m"]):
                                assert L.lzma_index_append(x, A, big(o["u"]), big(o["v"])) == 0
                            if o["f"]["set"]:
                                assert L.lzma_index_stream_flags(x, C.byref(self.flags(o["f"]))) == 0
                            assert L.lzma_index_stream_padding(x, 4 * j) == 0
                            r = L.lzma_index_cat(reg[k], x, A)
                            if r != 0:
                                L.lzma_index_end(x, A); ret = lz.retname(r); break
                    elif op == "streams":
                        # o.m Streams cat'ed one by one; digit d of o.n in base o.j selects the shape (IndexOps!StreamShape)
                        shapes = {0: [], 1: [(8, 0)], 2: [(8, 5)], 3: [(8, 0), (9, 5)]}
                        for d in range(o["m"]):
                            x = L.lzma_index_init(A)
                            for u, v in shapes[(o["n"] // j ** d) % j]:
                                assert L.lzma_index_append(x, A, u, v) == 0
                            r = L.lzma_index_cat(reg[k], x, A)
                            if r != 0:
                                L.lzma_index_end(x, A); ret = lz.retname(r); break
                    elif op == "groups":
                        # o.m times 512 equal Records (8, bit g of o.n)
                        for g in range(o["m"]):
                            for _ in range(512):
                                r = L.lzma_index_append(reg[k], A, 8, (o["n"] >> g) & 1)
                                if r != 0:
                                    ret = lz.retname(r); break
                    elif op == "hash_init":
                        hp[0] = L.lzma_index_hash_init(hp[0], A)
                        if not hp[0]:
                            raise Mismatch("ret", "lzma_index_hash_init returned NULL")
                        self.hash_size(hp[0], s)
                    elif op == "hash_append":
                        ret = lz.retname(L.lzma_index_hash_append(hp[0], big(o["u"]) & M64, big(o["v"]) & M64))
                        if ret == s["ret"] and ret in ("OK", "PROG_ERROR"):
                            self.hash_size(hp[0], s)
                        if s["ret"] == "DATA_ERROR":
                            L.lzma_index_hash_end(hp[0], A); hp[0] = None
                    elif op == "hash_decode":
                        size = L.lzma_index_size(reg[k]); buf = lz.Buf(size); pos = C.c_size_t(0)
                        assert L.lzma_index_buffer_encode(reg[k], buf.addr, C.byref(pos), size) == 0
                        ip = C.c_size_t(0)
                        ret = lz.retname(L.lzma_index_hash_decode(hp[0], buf.addr, C.byref(ip), size))
                        if ret == "STREAM_END" and ip.value != size:
                            raise Mismatch("hash_decode", "consumed %d of %d bytes" % (ip.value, size))
                        L.lzma_index_hash_end(hp[0], A); hp[0] = None
                    elif op == "encn":
                        for _ in range(o["n"]):
                            assert L.lzma_index_append(reg[k], A, big(o["u"]), big(o["v"])) == 0
                        data = self.encode_checked(reg[k], bytes(s["enc"]))
                        self.chunked_decodes(data, [ob for slot, ob in s["obs"] if slot == 0][0], alloc)
                    elif op == "park":
                        # iterate-some / append-many / iterate-rest (IndexOps!Apply "park")
                        for _ in range(o["n"]):
                            assert L.lzma_index_append(reg[k], A, 8, 1) == 0
                        L.lzma_index_iter_init(C.byref(it), reg[k]); it_slot = k
                        if L.lzma_index_iter_locate(C.byref(it), big(o["u"])):
                            raise Mismatch("park_locate", "locate(%d) found nothing" % big(o["u"]))
                        prev = it.block.number_in_file
                        for _ in range(o["m"]):
                            assert L.lzma_index_append(reg[k], A, 8, 1) == 0
                        cnt = 0; want = s["info"]
                        while cnt <= want["cnt"] + 1 and not L.lzma_index_iter_next(C.byref(it), j):
                            cnt += 1
                            if it.block.number_in_file != prev + 1:
                                raise Mismatch("park_order", "after Block %d next() returned Block %d (parked at offset %d of %d, then %d appended)" % (
                                    prev, it.block.number_in_file, big(o["u"]), o["n"], o["m"]))
                            prev = it.block.number_in_file
                        if cnt != want["cnt"] or prev != want["b"] or it.stream.number != want["s"]:
                            raise Mismatch("park_rest", "iterator parked at offset %d of %d Records, %d appended: next() returned %d more "
                                           "items ending at Block %d, model %d ending at Block %d" % (big(o["u"]), o["n"], o["m"], cnt, prev, want["cnt"], want["b"]))
                        ret = "END"
                        last.pop(k, None)      # (no observation is predicted for the grown index in this family)
                    elif op == "dup":
                        if inject and inject.random() < 0.5:
                            nth = inject.randrange(1, 7); cnt = [0]
                            alloc.fail_at = lambda n: (cnt.__setitem__(0, cnt[0] + 1) or cnt[0] >= nth)
                            x = L.lzma_index_dup(reg[k], A)
                            alloc.fail_at = lambda n: armed[0]
                            if x:
                                L.lzma_index_end(x, A)
                            unchanged("dup")
                        x = L.lzma_index_dup(reg[k], A)
                        if not x:
                            raise Mismatch("ret", "lzma_index_dup returned NULL")
                        reg[j] = x
                    elif op == "encdec":
                        ret = self.encdec(reg, k, j, s, A, alloc)
                    elif op == "iter_init":
                        L.lzma_index_iter_init(C.byref(it), reg[k]); it_slot = k
                    elif op in ("iter_next", "iter_locate"):
                        before = bytes(it)
                        if op == "iter_next":
                            r = L.lzma_index_iter_next(C.byref(it), o["n"])
                        else:
                            r = L.lzma_index_iter_locate(C.byref(it), big(o["u"]) & M64)
                        ret = "END" if r else "FOUND"
                        if ret != s["ret"]:
                            raise Mismatch("ret", "%s returned %s, model %s%s" % (op, ret, s["ret"],
                                           "" if r else " (stream %d block %d)" % (it.stream.number, it.block.number_in_file)))
                        if r:
                            if bytes(it) != before:
                                raise Mismatch("iter_unchanged", "iterator modified by a failed %s" % op)
                        else:
                            ob = last[it_slot]
                            sn = s["info"]["s"]; bn = s["info"]["b"]
                            if it.stream.number != sn:
                                raise Mismatch("iter", "%s went to stream %d, model %d" % (op, it.stream.number, sn))
                            self.cmp_stream(it, ob["st"][sn - 1], "iter")
                            if bn:
                                if it.block.number_in_file != bn:
                                    raise Mismatch("iter", "%s went to block %d, model %d" % (op, it.block.number_in_file, bn))
                                b = [x for x in ob["bl"] if x["nfile"] == bn]
                                if b:
                                    self.cmp_block(it, b[0], "iter")
                    else:
                        raise RuntimeError("unknown op " + op)
                    if ret != s["ret"]:
                        raise Mismatch("ret", "%s returned %s, model %s (%s)" % (op, ret, s["ret"], s["why"]))
                    touched = set()
                    for slot, ob in s["obs"]:
                        if slot == 0:
                            continue          # (prediction for a decoded copy, compared where it was decoded)
                        touched.add(slot); last[slot] = ob
                        if slot not in reg:
                            raise Mismatch("ret", "model has an index in slot %d, the code none" % slot)
                        self.observe(reg[slot], ob)
                    try:
                        for slot, p in reg.items():
                            if slot not in touched and slot in last:
                                self.observe(p, last[slot])
                    except Mismatch as e:
                        raise Mismatch("untouched." + e.field, e.detail)
                except Mismatch as e:
                    if op.startswith("iter_"):
                        key = "replay:%s:%s" % (op, s["why"])
                    elif e.field == "ret":
                        key = "replay:ret:%s:%s" % (op, s["why"])
                    else:
                        key = "replay:%s:%s" % (e.field, op)
                    return dict(step=n, key=key, detail=e.detail)
        finally:
            for p in reg.values():
                L.lzma_index_end(p, A)
            if hp[0]:
                L.lzma_index_hash_end(hp[0], A)
        if alloc and (alloc.live or alloc.errors):
            return dict(step=len(plan) - 1, key="replay:allocator", detail="after freeing every index: %d allocations live, errors %s" % (len(alloc.live), alloc.errors[:3]))
        return None

    def flags(self, f):
        sf = self.lz.StreamFlags()
        sf.version = f["version"]; sf.check = f["check"]
        sf.backward_size = big(f["bs"]) if f["bsk"] else self.lz.VLI_UNKNOWN
        return sf

    def hash_size(self, h, s):
        got = self.L.lzma_index_hash_size(h)
        if got != s["info"]["cnt"]:
            raise Mismatch("hash_size", "lzma_index_hash_size = %d, model %d" % (got, s["info"]["cnt"]))

    def chunked_decodes(self, data, obs, alloc):
        """The Index decoder as a stream (lzma_index_decoder + lzma_code): whatever the input chunks are, the
        result is the index the model predicts for the decode (`obs`).  Fed byte by byte, and in two chunks cut
        after every byte of the encoding (= after the Indicator, the Number of Records, every Record field, every
        padding and CRC32 byte); for big encodings after each of the first 48 and last 24 bytes."""
        lz = self.lz; L = self.L; size = len(data)
        A = alloc.ptr() if alloc else None
        ib = lz.Buf(size, data)
        cuts = list(range(1, size)) if size <= 700 else list(range(1, 49)) + list(range(size - 24, size))
        for cut in [0] + cuts:
            pieces = [1] * size if cut == 0 else [cut, size - cut]
            what = "byte by byte" if cut == 0 else "in chunks of %d + %d bytes" % (cut, size - cut)
            c = lz.Coder(alloc); idx = C.c_void_p()
            if c.init("lzma_index_decoder", C.byref(idx), lz.UINT64_MAX) != lz.OK:
                raise Mismatch("decode_chunked", "lzma_index_decoder failed")
            st = c.strm; pos = 0; ret = lz.OK
            try:
                for n in pieces:
                    st.next_in = ib.addr + pos; st.avail_in = n; st.next_out = None; st.avail_out = 0
                    ret = c.code_raw(lz.RUN)
                    used = n - st.avail_in; pos += used
                    if ret == lz.OK and used == n and pos < size:
                        continue
                    break
                if ret != lz.STREAM_END or pos != size or not idx.value:
                    raise Mismatch("decode_chunked", "%d-byte Index fed %s: %s after %d bytes, index %s" % (
                        size, what, lz.retname(ret), pos, "present" if idx.value else "missing"))
                try:
                    self.observe(idx.value, obs, getters_only=True)
                except Mismatch as e:
                    raise Mismatch("decode_chunked." + e.field, "%d-byte Index fed %s: %s" % (size, what, e.detail))
                ob = lz.Buf(size); op = C.c_size_t(0)
                if L.lzma_index_buffer_encode(idx.value, ob.addr, C.byref(op), size) != lz.OK or ob.data(size) != data:
                    raise Mismatch("decode_chunked.bytes", "%d-byte Index fed %s: re-encoding differs" % (size, what))
            finally:
                c.end()
                if idx.value:
                    L.lzma_index_end(idx, A)

    def encode_checked(self, p, want):
        lz = self.lz; L = self.L
        size = L.lzma_index_size(p)
        if size != len(want) + 4:
            raise Mismatch("encode_size", "lzma_index_size %d, model %d" % (size, len(want) + 4))
        buf = lz.Buf(size); pos = C.c_size_t(0)
        r = L.lzma_index_buffer_encode(p, buf.addr, C.byref(pos), size)
        if r != lz.OK or pos.value != size or not buf.guards_ok():
            raise Mismatch("encode", "encode returned %s pos %d" % (lz.retname(r), pos.value))
        data = buf.data(size)
        if data[:-4] != want:
            raise Mismatch("encode_bytes", "encoded Index differs from the model's bytes")
        if int.from_bytes(data[-4:], "little") != zlib.crc32(data[:-4]):
            raise Mismatch("encode_crc", "CRC32 of the encoded Index is wrong")
        return data

    def encdec(self, reg, k, j, s, A=None, alloc=None):
        lz = self.lz; L = self.L
        size = L.lzma_index_size(reg[k])
        want = bytes(s["enc"])
        if size != len(want) + 4:
            raise Mismatch("encode_size", "lzma_index_size %d, model %d" % (size, len(want) + 4))
        buf = lz.Buf(size + 8); pos = C.c_size_t(3)
        # one byte too little must be refused without touching the buffer
        r = L.lzma_index_buffer_encode(reg[k], buf.addr, C.byref(pos), size + 2)
        if r != lz.BUF_ERROR or pos.value != 3:
            raise Mismatch("encode_short", "encode into size-1 bytes returned %s pos %d" % (lz.retname(r), pos.value))
        r = L.lzma_index_buffer_encode(reg[k], buf.addr, C.byref(pos), size + 3)
        if r != lz.OK or pos.value != size + 3 or not buf.guards_ok():
            raise Mismatch("encode", "encode returned %s pos %d" % (lz.retname(r), pos.value))
        data = buf.data(size, 3)
        if data[:-4] != want:
            raise Mismatch("encode_bytes", "encoded %s, model %s" % (data[:-4].hex(), want.hex()))
        if int.from_bytes(data[-4:], "little") != zlib.crc32(data[:-4]):
            raise Mismatch("encode_crc", "CRC32 of the encoded Index is wrong")
        out = C.c_void_p(); ml = C.c_uint64(lz.UINT64_MAX); ip = C.c_size_t(0)
        ib = lz.Buf(size, data)
        r = L.lzma_index_buffer_decode(C.byref(out), C.byref(ml), A, ib.addr, C.byref(ip), size)
        if r == lz.OK:
            if ip.value != size:
                L.lzma_index_end(out, A)
                raise Mismatch("decode", "decoder consumed %d of %d bytes" % (ip.value, size))
            reg[j] = out.value
            dec = [ob for slot, ob in s["obs"] if slot == j]
            if dec and size <= 700:
                self.chunked_decodes(data, dec[0], alloc)
        return lz.retname(r)


def main():
    mode, src, dst = sys.argv[1:4]
    sys.path.insert(0, os.path.dirname(os.path.dirname(os.path.dirname(os.path.abspath(__file__)))))
    from harness.pydrv import lz
    lz.load(os.environ["VERIF_LIBLZMA"])
    if mode == "index":
        rp = Replayer(lz)
        res = []
        with open(src) as f, open(dst, "w") as out:
            for n, line in enumerate(f):
                plan = json.loads(line)
                out.write(json.dumps(dict(begin=n)) + "\n"); out.flush()
                import random
                r = rp.run_plan(plan, random.Random(n) if n % 2 else None)
                out.write(json.dumps(dict(done=n, res=r)) + "\n"); out.flush()
            out.write(json.dumps(dict(stats=dict(memerrs=getattr(rp, "memerrs", 0)))) + "\n")
    elif mode in ("fi_build", "fi_run"):
        from harness.pydrv import c13_fileinfo
        c13_fileinfo.worker(lz, src, dst, mode)
    else:
        raise SystemExit("bad mode")

if __name__ == "__main__":
    try:
        main()
    except Exception:
        import traceback
        traceback.print_exc()
        sys.exit(77)        # a failure of the harness itself, not of the library
