"""C03 (V): lift a real .xz file into an abstract file of spec/XzFile.tla.

The independent glue parser tells the fields (events) and, for an invalid file, the class of the first rule violation.
Everything up to that point is transcribed field by field; what lies behind the first violation cannot influence a
decoder and is completed with a minimal valid tail.  The abstract file is then judged by the TLA+ decoder model
(EvalXz.tla) and the model's verdict is compared with the real decoder's.
"""
from harness.glue import xz as gxz, vli as gvli, crc as gcrc

FNAME = {0x21: 'lzma2', 3: 'delta', 4: 'x86', 5: 'powerpc', 6: 'ia64', 7: 'arm', 8: 'armthumb', 9: 'sparc', 10: 'arm64', 11: 'riscv'}
ALIGN = {'x86': 1, 'powerpc': 4, 'ia64': 16, 'arm': 4, 'armthumb': 2, 'sparc': 4, 'arm64': 4, 'riscv': 2}

class CannotLift(Exception):
    pass

def END():
    return dict(k="end", reset="none", props="ok", pl="ok", n=0, c=1, id=0)

def lift_chunks(l2, data_size):
    """glue Lzma2Result.chunks -> abstract chunks (sizes are the real ones)"""
    out = []
    ch = l2.chunks
    for i, c in enumerate(ch):
        nxt = ch[i + 1]['offset'] if i + 1 < len(ch) else None
        kind = c['kind']
        status = c.get('status', 'ok')
        if kind == 'end':
            out.append(dict(END(), id=i + 1)); continue
        if kind == 'invalid':
            out.append(dict(k="bad", reset="none", props="ok", pl="ok", n=0, c=1, id=i + 1)); continue
        if kind == 'truncated':
            raise CannotLift("truncated chunk header")
        hdr = 3 if kind == 'uncompressed' else (6 if c['control'] >= 0xC0 else 5)
        if c['csize'] is None or c['usize'] is None:
            # rejected at the control byte: sizes were never read
            c = dict(c, csize=1, usize=1)
        size = hdr + c['csize']
        if kind == 'uncompressed':
            out.append(dict(k="unc", reset="dict" if c['control'] == 1 else "none", props="ok", pl="ok", n=c['usize'], c=size, id=i + 1))
        else:
            reset = {'none': 'none', 'state': 'state', 'state+props': 'props', 'all': 'all'}[c['reset']]
            props = "ok"
            pl = "ok"
            if status.startswith('error'):
                r = status.split(':', 1)[1]
                if r == 'props':
                    props = "bad"
                elif r in ('chunk:csize_long', ):
                    pl = "short"
                elif r in ('chunk:csize_short',):
                    pl = "long"
                elif r.startswith('chunk:'):
                    pl = "err"
            out.append(dict(k="lzma", reset=reset, props=props, pl=pl, n=c['usize'], c=size, id=i + 1))
    return out

def lift_filter(fid, props):
    name = FNAME.get(fid)
    if fid >= (1 << 62):
        return dict(id="reserved", plen=len(props), pok=True, idv='ok', psv='ok')
    if name is None:
        return dict(id="unknown", plen=len(props), pok=True, idv='ok', psv='ok')
    pok = True
    if name == 'lzma2' and len(props) == 1:
        pok = props[0] <= 40
    elif name in ALIGN and len(props) == 4:
        pok = int.from_bytes(props, "little") % ALIGN[name] == 0
    return dict(id=name, plen=len(props), pok=pok, idv='ok', psv='ok')

def read_header_fields(data, off):
    """fields of the Block Header at `off` as far as they can be read (xz-file-format 3.1); CRC32 / validity are not judged here"""
    hsz = (data[off] + 1) * 4
    end = off + hsz - 4
    fl = data[off + 1]
    p = off + 2
    r = dict(hsz=hsz, flags=fl, cs=None, us=None, filters=[], complete=False, pad=None)
    try:
        if fl & 0x40:
            r['cs'], p = gvli.decode(data, p, 9, end)
        if fl & 0x80:
            r['us'], p = gvli.decode(data, p, 9, end)
        for k in range((fl & 3) + 1):
            fid, p = gvli.decode(data, p, 9, end)
            ps, p = gvli.decode(data, p, 9, end)
            if ps > end - p:
                return r
            r['filters'].append((fid, bytes(data[p:p + ps]))); p += ps
        r['pad'] = bytes(data[p:end]); r['complete'] = True
    except Exception:
        pass
    return r

def default_block(did):
    return dict(hsz=12, resv=False, cs=dict(p=False, v=0, vli=True, vc='ok', big=''), us=dict(p=False, v=0, vli=True, vc='ok', big=''),
                filters=[dict(id="lzma2", plen=1, pok=True, idv='ok', psv='ok')], fits=True, hpad=2, hpadz=True, hcrc=True,
                chunks=[dict(END(), id=1)], did=did, bpadz=True, chk=True)

def vlen(v):
    return len(gvli.encode(v))

def complete_stream(S):
    """fill the Index / Footer of a stream dict with the valid values for its blocks (fields already set are kept)"""
    cs = gcrc.check_size(S['check'])
    recs = []
    for b in S['blocks']:
        data = sum(1 if c['k'] == 'end' else c['c'] for c in b['chunks'])
        recs.append(dict(u=b['hsz'] + data + cs, n=sum(c['n'] for c in b['chunks'] if c['k'] != 'end'), ub='', nb=''))
    S.setdefault('icount', len(recs)); S.setdefault('irecs', recs)
    for k in ('ivli', 'ipadz', 'icrc', 'fcrc', 'fvers', 'fmagic', 'hmagic', 'hvers', 'hcrc'):
        S.setdefault(k, True)
    S.setdefault('fcheck', S['check'])
    S.setdefault('ivpos', 0 if S['ivli'] else 1); S.setdefault('ivcls', 'ok' if S['ivli'] else 'nonmin'); S.setdefault('icb', ''); S.setdefault('fbb', '')
    S['irecs'] = [dict(dict(ub='', nb=''), **r) for r in S['irecs']]
    body = 1 + vlen(S['icount']) + sum(vlen(r['u']) + vlen(r['n']) for r in S['irecs'])
    S.setdefault('fbs', ((body + 3) & ~3) + 4)
    S.setdefault('pad', 0)
    return S

def lift(data):
    """-> (abstract file, limit or None, outputs by did).  Raises CannotLift."""
    g = gxz.parse(data, concatenated=True)
    v = g.verdict
    if v == 'unsupported-by-glue':
        raise CannotLift(v)
    ev = {}
    for nm, o, l, val in g.events:
        ev[nm] = (o, l, val)
    streams = []
    outs = {}
    did = 0
    err = None if v in ('ok', 'truncated') else v
    errpos = g.error_offset
    nstreams = 1 + max([int(nm[1:nm.index('.')]) for nm in ev] or [0])
    oi = 0
    for si in range(nstreams):
        p = "s%d." % si
        gs = g.streams[si] if si < len(g.streams) else None
        S = dict(blocks=[])
        if gs is None:
            # the Stream Header itself is bad
            S['check'] = 1
            if v in ('error:format', 'error:magic'):
                S['hmagic'] = False
            elif v == 'error:stream_header_crc':
                S['hcrc'] = False
            elif v == 'unsupported:stream_flags':
                S['hvers'] = False
            elif v == 'truncated':
                pass
            else:
                raise CannotLift("no stream info for " + v)
            streams.append(complete_stream(S)); break
        S['check'] = gs['check']
        last_stream = si == nstreams - 1
        for bi, gb in enumerate(gs['blocks']):
            q = p + "b%d." % bi
            did += 1
            B = default_block(did)
            last_block = last_stream and bi == len(gs['blocks']) - 1
            B['hsz'] = gb['header_size']
            B['cs'] = dict(p=gb['compressed_size'] is not None, v=gb['compressed_size'] or 0, vli=True, vc='ok', big='')
            B['us'] = dict(p=gb['uncompressed_size'] is not None, v=gb['uncompressed_size'] or 0, vli=True, vc='ok', big='')
            B['filters'] = [lift_filter(fid, pr) for fid, pr in gb['filters']] or B['filters']
            body = 2 + (vlen(B['cs']['v']) if B['cs']['p'] else 0) + (vlen(B['us']['v']) if B['us']['p'] else 0) + \
                sum((9 if f['id'] == 'reserved' else 1) + 1 + f['plen'] for f in B['filters'])
            B['hpad'] = B['hsz'] - 4 - body
            if B['hpad'] < 0:
                raise CannotLift("header layout")
            if 'lzma2' in gb:
                B['chunks'] = lift_chunks(gb['lzma2'], gb.get('data_size'))
                if not B['chunks'] or (gb['lzma2'].status == 'need_more'):
                    if v != 'truncated':
                        raise CannotLift("data ends without end marker")
            if oi < len(g.outputs):
                outs[did] = g.outputs[oi]; oi += 1
            if last_block and err:
                # the first violation is in this Block (glue stopped here)
                c = err
                if c == 'error:block_padding': B['bpadz'] = False
                elif c == 'error:check': B['chk'] = False
                elif c == 'error:compressed_size':
                    if not B['cs']['p']: raise CannotLift(c)
                elif c == 'error:uncompressed_size':
                    if not B['us']['p']: raise CannotLift(c)
                elif c.startswith('error:lzma2:'):
                    if not any(x['pl'] != 'ok' or x['props'] != 'ok' or x['k'] == 'bad' for x in B['chunks']):
                        r = c.split(':', 2)[2]
                        if r in ('dict_reset_needed', 'props_needed', 'control'):
                            pass          # expressed by the chunk sequence itself
                        else:
                            raise CannotLift(c)
                elif c.startswith('error:index') or c.startswith('error:footer') or c in ('error:backward_size', 'error:stream_padding', 'unsupported:footer_flags'):
                    pass
                elif c.startswith('unsupported:filter') or c == 'error:filter_id_reserved':
                    pass
                else:
                    raise CannotLift("violation %s inside a Block" % c)
            S['blocks'].append(B)
        # a Block Header that glue rejected: it is the Block after the listed ones; its fields are read again here
        hdr_classes = ('error:block_header_crc', 'unsupported:block_flags', 'error:block_header', 'error:block_header_vli', 'unsupported:header_padding',
                       'unsupported:filter_id', 'unsupported:filter_chain', 'unsupported:filter_props', 'error:filter_id_reserved', 'error:compressed_size')
        nb = len(gs['blocks'])
        if last_stream and err in hdr_classes and (p + "index.indicator") not in ev and len(S['blocks']) == nb and not (nb and err == 'error:compressed_size' and (p + "b%d.data" % (nb - 1)) not in ev):
            hoff = gs['offset'] + 12 + sum(((b['header_size'] + b.get('data_size', 0) + 3) & ~3) + gcrc.check_size(gs['check']) for b in gs['blocks'])
            if hoff >= len(data) or data[hoff] == 0:
                raise CannotLift("cannot locate the rejected Block Header")
            h = read_header_fields(data, hoff)
            did += 1
            B = default_block(did)
            B['hsz'] = h['hsz']
            if err == 'error:block_header_crc':
                B['hcrc'] = False; B['hpad'] = B['hsz'] - 9
            elif err == 'unsupported:block_flags':
                B['resv'] = True; B['hpad'] = B['hsz'] - 9
            elif err in ('error:block_header', 'error:block_header_vli'):
                B['fits'] = False; B['hpad'] = B['hsz'] - 9
            else:
                if not h['complete']:
                    raise CannotLift("rejected header cannot be read")
                B['cs'] = dict(p=h['cs'] is not None, v=h['cs'] or 0, vli=True, vc='ok', big='')
                B['us'] = dict(p=h['us'] is not None, v=h['us'] or 0, vli=True, vc='ok', big='')
                B['filters'] = [lift_filter(fid, pr) for fid, pr in h['filters']]
                B['hpad'] = len(h['pad']); B['hpadz'] = not any(h['pad'])
                if B['cs']['v'] >= (1 << 28) or B['us']['v'] >= (1 << 28):
                    raise CannotLift("size beyond the model's integer range")
            if B['hpad'] < 0 and B['hsz'] == 8:
                B['filters'] = [dict(id="x86", plen=0, pok=True, idv='ok', psv='ok')]; B['hpad'] = 0      # 8-byte header: only the layout size matters here
            if B['hpad'] < 0:
                raise CannotLift("header layout of a rejected header")
            S['blocks'].append(B)
        if last_stream and err == 'error:compressed_size' and (p + "index.indicator") not in ev and not any(b['cs']['p'] for b in S['blocks'][-1:]):
            raise CannotLift(err)
        # Index / footer
        if last_stream and err:
            c = err
            if c == 'error:index_vli': S['ivli'] = False
            elif c == 'error:index_count':
                S['icount'] = ev[p + "index.count"][2]
                S['irecs'] = [dict(u=24, n=0, ub='', nb='')] * S['icount'] if S['icount'] < 64 else None
                if S['irecs'] is None: raise CannotLift("huge count")
            elif c in ('error:index_record', 'error:index_mismatch'):
                # the records as stored, as far as glue read them; the rest as the Blocks say
                S2 = complete_stream(dict(S, blocks=S['blocks']))
                recs = [dict(r) for r in S2['irecs']]
                for ri in range(len(recs)):
                    a = ev.get(p + "index.r%d.unpadded" % ri); b = ev.get(p + "index.r%d.uncompressed" % ri)
                    if a: recs[ri]['u'] = a[2]
                    if b: recs[ri]['n'] = b[2]
                if any(r['u'] >= (1 << 28) or r['n'] >= (1 << 28) for r in recs):
                    raise CannotLift("record beyond the model's integer range")
                S['irecs'] = recs
            elif c == 'error:index_padding': S['ipadz'] = False
            elif c == 'error:index_crc': S['icrc'] = False
            elif c == 'error:footer_magic': S['fmagic'] = False
            elif c == 'error:footer_crc': S['fcrc'] = False
            elif c == 'unsupported:footer_flags': S['fvers'] = False
            elif c == 'error:backward_size':
                S['fbs'] = (ev[p + "footer.backward_size"][2] + 1) * 4
                if S['fbs'] >= (1 << 28): raise CannotLift("backward size beyond the model's integer range")
            elif c == 'error:footer_flags': S['fcheck'] = ev[p + "footer.flags"][2][1] & 0x0F
            elif c == 'error:stream_padding': pass
        S['pad'] = gs.get('padding', 0)
        streams.append(complete_stream(S))
    af = dict(streams=streams)
    limit = len(data) if v == 'truncated' else None
    return af, limit, outs, g
