"""C04: concretiser of the StarveGrammar.tla items.  Every abstract item (enumerated by TLC) becomes one call
description for harness/pydrv/c06drv.run_parse: dict(entry, data hex, cls, expect [allowed return codes], ...).
CRC32 / VLI encodings come from harness/glue (independent of liblzma)."""
import struct

from harness.glue import vli, crc

HEADER_MAGIC = b"\xFD7zXZ\x00"
FOOTER_MAGIC = b"YZ"
LZMA1_ID = 0x4000000000000001
FIDS = {"lzma1": LZMA1_ID, "lzma1ext": 0x4000000000000002, "lzma2": 0x21, "delta": 3, "x86": 4, "powerpc": 5, "ia64": 6,
        "arm": 7, "armthumb": 8, "sparc": 9, "arm64": 10, "riscv": 11, "unknown": 0x7F, "reserved": 1 << 62, "max": (1 << 63) - 1}
GOOD_PROPS = {"lzma1": b"\x5D\x00\x10\x00\x00", "lzma1ext": b"\x5D\x00\x10\x00\x00", "lzma2": b"\x08", "delta": b"\x03"}


def le32(v):
    return struct.pack("<I", v & 0xFFFFFFFF)


def vli_item(it):
    bs = it["bytes"]
    out = bytearray()
    for i, c in enumerate(bs):
        out.append({"c": 0x80 | (1 + (i * 37) % 127), "c0": 0x80, "t": 1 + (i * 11) % 127, "t0": 0x00}[c])
    n = len(out)
    cls = "vli:%d:%s%s" % (n, bs[0] if n > 1 else "", bs[-1])
    res = [dict(entry="vli_decode_single", data=bytes(out).hex(), cls=cls, expect=[it["single"]],
                want_ipos=it["used"] if it["single"] == "OK" or it["used"] < n or True else None)]
    cuts = {"whole": [], "bytewise": list(range(1, n)), "half": [n // 2] if n // 2 > 0 else []}[it["cut"]]
    res.append(dict(entry="vli_decode", data=bytes(out).hex(), cls=cls + ":" + it["cut"], expect=[it["multi"]], cuts=cuts,
                    want_ipos=it["used"]))
    return res


def sflags_item(it):
    flags = bytes([it["b0"], it["b1"]])
    stored = {"0": 0, "1": 1, "max": 0xFFFFFFFF}[it["backward"]]
    if it["footer"]:
        body = le32(stored) + flags
        c = crc.crc32(body) + (0 if it["crcok"] else 1)
        magic = bytearray(FOOTER_MAGIC)
        if it["magic"] == "bad_first":
            magic[0] ^= 0x20
        elif it["magic"] == "bad_last":
            magic[-1] ^= 0x01
        data = le32(c) + body + bytes(magic)
        entry = "stream_footer_decode"
    else:
        c = crc.crc32(flags) + (0 if it["crcok"] else 1)
        magic = bytearray(HEADER_MAGIC)
        if it["magic"] == "bad_first":
            magic[0] ^= 0x02
        elif it["magic"] == "bad_last":
            magic[-1] ^= 0x01
        data = bytes(magic) + flags + le32(c)
        entry = "stream_header_decode"
    d = dict(entry=entry, data=data.hex(), cls="sflags:%s:%s:%d:%d" % (it["magic"], it["crcok"], it["b0"], it["b1"]),
             expect=[it["expect"]], alloc=False)
    if it["expect"] == "OK":
        d["want"] = dict(check=it["b1"], backward=str((stored + 1) * 4) if it["footer"] else None)
    return [d]


def filter_bytes(name, props=None):
    p = GOOD_PROPS.get(name, b"") if props is None else props
    return vli.encode(FIDS[name]) + vli.encode(len(p)) + p


def bhdr_item(it):
    nf, hasC, hasU, extra, dev = it["nf"], it["hasC"], it["hasU"], it["extra"], it["dev"]
    nonlast = ["delta", "x86", "arm64"][:nf - 1]
    chain = [filter_bytes(n) for n in nonlast] + [filter_bytes("lzma2")]
    flags = (nf - 1) | (0x40 if hasC else 0) | (0x80 if hasU else 0)
    cs = vli.encode(1000); us = vli.encode(5000)
    if dev.startswith("resv"):
        flags |= int(dev[4:], 16)
    if dev == "csize_zero": cs = vli.encode(0)
    if dev == "csize_huge": cs = vli.encode((1 << 63) - 1)
    if dev == "csize_nonminimal": cs = vli.encode_padded(1000, 3)
    if dev == "csize_overlong": cs = vli.encode_padded(1000, 10)
    if dev == "usize_max": us = vli.encode((1 << 63) - 1)
    if dev == "usize_nonminimal": us = vli.encode_padded(5000, 4)
    if dev == "usize_overlong": us = vli.encode_padded(5000, 10)
    if dev == "id_reserved": chain[0] = vli.encode(1 << 62) + vli.encode(0)
    if dev == "id_unknown": chain[0] = vli.encode(0x7F) + vli.encode(0)
    if dev == "id_lzma1": chain[0] = filter_bytes("lzma1")
    if dev == "id_overlong": chain[0] = vli.encode_padded(0x21, 10) + vli.encode(1) + b"\x08"
    if dev == "psize_big": chain[-1] = vli.encode(0x21) + vli.encode(100) + b"\x08"
    if dev == "psize_huge": chain[-1] = vli.encode(0x21) + vli.encode((1 << 63) - 1) + b"\x08"
    if dev == "psize_zero": chain[-1] = vli.encode(0x21) + vli.encode(0)
    if dev == "psize_plus1": chain[-1] = vli.encode(0x21) + vli.encode(2) + b"\x08\x00"
    if dev == "props_bad": chain[-1] = vli.encode(0x21) + vli.encode(1) + b"\x29"
    if dev == "lzma2_not_last": chain[0] = filter_bytes("lzma2")
    if dev == "delta_last": chain[-1] = filter_bytes("delta")
    if dev == "five_filters_worth": chain.append(filter_bytes("lzma2"))
    body = bytes([flags]) + (cs if hasC else b"") + (us if hasU else b"") + b"".join(chain)
    total = 1 + len(body) + 4
    pad = (-total) % 4 + extra
    if dev == "padding_nonzero" and pad == 0:
        pad = 4
    padding = bytearray(pad)
    if dev == "padding_nonzero":
        padding[-1] = 1
    if dev == "no_room":
        # cut the header in the middle of the last filter's flags
        body = body[:len(body) - 1]
        padding = bytearray((-(1 + len(body) + 4)) % 4)
        # make sure the cut is not hidden by padding: drop padding, shorten further until aligned
        while (1 + len(body) + 4) % 4:
            body = body[:-1]
        padding = bytearray()
    total = 1 + len(body) + len(padding) + 4
    size_byte = total // 4 - 1
    real = size_byte
    if dev == "size_byte_small": size_byte = max(1, size_byte - 1) if size_byte > 1 else size_byte + 1
    if dev == "size_byte_big": size_byte = min(255, size_byte + 2)
    hdr = bytes([real]) + body + bytes(padding)
    c = crc.crc32(hdr) + (1 if dev == "crc" else 0)
    data = bytearray(hdr + le32(c))
    data[0] = size_byte
    need = (size_byte + 1) * 4
    if len(data) < need:
        data += bytes(need - len(data))
    if size_byte > 255 or total > 1024:
        return []
    return [dict(entry="block_header_decode", data=bytes(data).hex(), cls="bhdr:%s:nf%d:%d%d" % (dev, nf, hasC, hasU),
                 expect=sorted(it["expect"]), header_size=need, check=it["check"],
                 want=dict(nfilters=nf) if dev == "none" else None)]


def fflags_item(it):
    idc, ps, room = it["id"], it["psize"], it["room"]
    base = idc if idc in GOOD_PROPS or idc in FIDS else "lzma2"
    props = GOOD_PROPS.get(base, b"")
    if idc == "nonminimal":
        idb = vli.encode_padded(0x21, 2); props = b"\x08"
    elif idc == "overlong":
        idb = vli.encode_padded(0x21, 10); props = b"\x08"
    elif idc == "cut":
        idb = b"\xA1"; props = b""
    else:
        idb = vli.encode(FIDS[idc])
    n = len(props)
    psb = {"exact": vli.encode(n), "zero": vli.encode(0), "plus1": vli.encode(n + 1), "big": vli.encode(1000),
           "huge": vli.encode((1 << 63) - 1), "nonminimal": vli.encode_padded(n, 2), "cut": b"\x85"}[ps]
    if ps == "plus1":
        props = props + b"\x00"
    if ps == "zero":
        props = b""
    data = idb + (psb if idc != "cut" else b"") + (props if ps != "cut" and idc != "cut" else b"")
    if room == "more":
        data += b"\x00\x01\x02"
    elif room == "less" and len(data) > 1:
        data = data[:-1]
    return [dict(entry="filter_flags_decode", data=data.hex(), cls="fflags:%s:%s:%s" % (idc, ps, room), expect=[])]


def props_item(it):
    f, n, v = it["filter"], it["n"], it["v"]
    if v == "ff":
        p = b"\xFF" * n
    elif f in ("lzma1", "lzma1ext"):
        p = (GOOD_PROPS["lzma1"] if v == "good" else b"\xE1\x00\x10\x00\x00")
        p = (p + b"\x00" * 8)[:n]
    elif f == "lzma2":
        p = ((b"\x08" if v == "good" else b"\x29") + b"\x00" * 8)[:n]
    else:
        p = ((b"\x00\x01\x00\x00" if v == "good" else b"\x03\x00\x00\x00") + b"\x00" * 8)[:n]
    exp = it["expect"]
    if f == "lzma2" and v == "ff":
        exp = "OPTIONS_ERROR"
    if f in ("lzma1", "lzma1ext") and v != "good":
        exp = "OPTIONS_ERROR"
    return [dict(entry="properties_decode", data=p.hex(), filter_id=str(FIDS[f]), cls="props:%s:%d:%s" % (f, n, v), expect=[exp])]


def index_item(it):
    n, dev, lim = it["n"], it["dev"], it["lim"]
    recs = [(40 + 8 * k, 100 * k + 1) for k in range(n)]
    indicator = 1 if dev == "indicator" else 0
    count = vli.encode(n)
    if dev == "count_more": count = vli.encode(n + 1)
    if dev == "count_less": count = vli.encode(max(0, n - 1)) if n else vli.encode(1)
    if dev == "count_huge": count = vli.encode((1 << 63) - 1)
    if dev == "count_nonminimal": count = vli.encode_padded(n, 2)
    if dev == "count_overlong": count = vli.encode_padded(n, 10)
    rb = []
    for k, (u, c) in enumerate(recs):
        ub, cb = vli.encode(u), vli.encode(c)
        if k == 0:
            if dev == "unpadded_zero": ub = vli.encode(0)
            if dev == "unpadded_4": ub = vli.encode(4)
            if dev == "unpadded_max": ub = vli.encode(((1 << 63) - 1) & ~3)
            if dev == "unpadded_nonminimal": ub = vli.encode_padded(u, 3)
            if dev == "uncompressed_nonminimal": cb = vli.encode_padded(c, 3)
            if dev == "uncompressed_overlong": cb = vli.encode_padded(c, 10)
        if dev == "sum_overflow":
            cb = vli.encode((1 << 63) - 2)
        rb.append(ub + cb)
    body = bytes([indicator]) + count + b"".join(rb)
    pad = bytearray((-len(body)) % 4)
    if dev == "padding_nonzero":
        if not pad:
            pad = bytearray(4)
        pad[-1] = 1
    if dev == "padding_short" and pad:
        pad = pad[:-1]
    elif dev == "padding_short":
        pad = bytearray(3)
    if dev == "padding_long":
        pad += bytes(4)
    body += bytes(pad)
    c = crc.crc32(body) + (1 if dev == "crc" else 0)
    data = body + le32(c)
    if dev == "cut_1": data = data[:1]
    if dev == "cut_5": data = data[:min(5, len(data) - 1)]
    if dev == "cut_in_crc": data = data[:-2]
    if dev == "empty_input": data = b""
    exp = set(it["expect"])
    if n == 0 and dev in ("unpadded_zero", "unpadded_4", "unpadded_max", "unpadded_nonminimal", "uncompressed_nonminimal",
                          "uncompressed_overlong", "sum_overflow"):
        exp |= {"OK", "MEMLIMIT_ERROR"}             # the deviation needs a Record
    if n < 2 and dev == "sum_overflow":
        exp |= {"OK", "MEMLIMIT_ERROR"}
    return [dict(entry="index_buffer_decode", data=data.hex(), cls="index:%s:n%d:%s" % (dev, n, lim), expect=sorted(exp),
                 memlimit=1 if lim == "tiny" else (1 << 30))]


def str_item(it):
    text = "".join(it["toks"]).encode()
    return [dict(entry="str_to_filters", data=text.hex(), cls="str:%d" % len(it["toks"]), expect=[], flags=it["flags"])]


CONC = {"vli": vli_item, "sflags": sflags_item, "bhdr": bhdr_item, "fflags": fflags_item, "props": props_item,
        "index": index_item, "str": str_item}


def concretise(item):
    return CONC[item["p"]](item)
