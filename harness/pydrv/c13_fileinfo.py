"""C13 file-info worker (runs inside harness/pydrv/c13_index.py's child process).

mode fi_build: build multi-Stream padded .xz files with the real encoder, cut them up with a small parser written
               from the file format document (no liblzma), and report layout + Records per Stream.
mode fi_run:   decode each file with lzma_file_info_decoder for several read sizes honouring LZMA_SEEK_NEEDED exactly,
               record one event per lzma_code() call, compare the resulting index with the model's prediction,
               decode Blocks at the offsets the index gives and compare with the plaintext.
"""
import ctypes as C, json, os, random, zlib
from . import c13_index
from .c13_index import big, limbs, Mismatch

def ceil4(x):
    return (x + 3) & ~3

def vli(buf, p):
    v = 0; sh = 0
    while True:
        b = buf[p]; p += 1
        v |= (b & 0x7F) << sh; sh += 7
        if not b & 0x80:
            return v, p

def parse_stream(x):
    """x: one complete Stream. Returns dict(check, bs, records, blocks)."""
    assert x[:6] == b"\xfd7zXZ\x00" and x[-2:] == b"YZ"
    bs = (int.from_bytes(x[-8:-4], "little") + 1) * 4
    idx = x[-12 - bs:-12]
    assert idx[0] == 0
    cnt, p = vli(idx, 1)
    recs = []
    for _ in range(cnt):
        u, p = vli(idx, p); v, p = vli(idx, p)
        recs.append([u, v])
    blocks = sum(ceil4(u) for u, _ in recs)
    assert 12 + blocks + bs + 12 == len(x), (blocks, bs, len(x))
    return dict(check=x[7] & 0x0F, bs=bs, records=recs, blocks=blocks)

TEMP = 8192          # sizeof(lzma_file_info_coder.temp), FileInfo!TempCap in spec/TraceFileInfo.cfg

def encode_to_size(coders, s, target):
    """A Stream of exactly `target` bytes from the real encoder: incompressible data (LZMA2 stores it in
    uncompressed chunks), length adjusted until the size matches."""
    rng = random.Random(s["seed"])
    pool = rng.randbytes(target + 64)
    n = max(1, target - 64)
    for _ in range(12):
        x = coders.encode_xz(pool[:n], preset=s["preset"], check=s["check"], block_size=None)
        if len(x) == target:
            return pool[:n], x
        n = max(1, n + target - len(x))
    raise RuntimeError("cannot build a Stream of %d bytes (got %d)" % (target, len(x)))

def build_file(lz, coders, item):
    """Streams are built from the last to the first: a Stream with "window_delta" = d is sized so that its Stream
    Header starts TEMP + d bytes before the end of the file, i.e. d bytes before the first look-back window."""
    built = []; tail = 0
    for s in reversed(item["streams"]):
        if "window_delta" in s:
            data, x = encode_to_size(coders, s, TEMP + s["window_delta"] - tail - s["pad"])
        else:
            rng = random.Random(s["seed"])
            data = coders.rand_data(rng, s["n"], s["kind"])
            x = coders.encode_xz(data, preset=s["preset"], check=s["check"], block_size=s["block_size"])
        info = parse_stream(x)
        tail += len(x) + s["pad"]
        built.append((x + bytes(s["pad"]), data, [info["blocks"], info["bs"], s["pad"], info["bs"], info["blocks"]], info))
    built.reverse()
    parts = [b[0] for b in built]; plain = [b[1] for b in built]; layout = [b[2] for b in built]; streams = [b[3] for b in built]
    data = b"".join(parts)
    dmg = item.get("damage")
    if dmg:
        data, layout = damage(data, layout, streams, dmg)
    return data, b"".join(plain), layout, streams

def damage(data, layout, streams, dmg):
    """CRC-consistent damage of Stream k: wrong Backward Size, or a wrong Unpadded Size in the first Record;
    or Stream Paddings that are not multiples of four (while the file size still is)."""
    if dmg["kind"] == "oddpad":
        return data, layout              # the paddings themselves are the damage (not multiples of four)
    k = dmg["stream"]; b = bytearray(data)
    start = sum(24 + l[0] + l[1] + l[2] for l in layout[:k])
    fstart = start + 12 + layout[k][0] + layout[k][1]
    layout = [list(l) for l in layout]
    if dmg["kind"] == "backward":
        nb = layout[k][1] + dmg["delta"]
        b[fstart + 4:fstart + 8] = (nb // 4 - 1).to_bytes(4, "little")
        b[fstart:fstart + 4] = zlib.crc32(bytes(b[fstart + 4:fstart + 10])).to_bytes(4, "little")
        layout[k][3] = nb
    else:
        istart = start + 12 + layout[k][0]
        idx = bytes(b[istart:istart + layout[k][1]])
        cnt, p = vli(idx, 1)
        if cnt == 0:
            return data, layout          # no Record to damage: leave the file valid
        u, q = vli(idx, p)
        nu = max(5, u + dmg["delta"])
        enc = bytearray()
        x = nu
        while x >= 0x80:
            enc.append((x & 0x7F) | 0x80); x >>= 7
        enc.append(x)
        if len(enc) != q - p:
            return data, layout          # size class changed: leave the file valid
        new = bytearray(idx); new[p:q] = enc
        new[-4:] = zlib.crc32(bytes(new[:-4])).to_bytes(4, "little")
        b[istart:istart + len(new)] = new
        layout[k][4] = layout[k][4] - ceil4(u) + ceil4(nu)
    return bytes(b), layout

def history_of(streams, pads):
    """The calls that build the expected index of the file (for spec/EvalIndex.tla)."""
    nof = dict(set=False, version=0, check=0, bsk=False, bs=[0, 0, 0])
    def op(name, k, j=0, u=0, v=0, f=None):
        return dict(op=name, k=k, j=j, u=limbs(u), v=limbs(v), n=0, m=0, f=f or nof)
    h = []
    for n, s in enumerate(streams):
        k = 1 if n == 0 else 2
        if n:
            h.append(op("init", 2))
        recs = s["records"]; a = 0
        while a < len(recs):
            b = a
            while b < len(recs) and recs[b] == recs[a]:
                b += 1
            if b - a >= 8:           # a long run of equal Records: the macro call appendn
                h.append(dict(op("appendn", k, u=recs[a][0], v=recs[a][1]), n=b - a))
            else:
                for u, v in recs[a:b]:
                    h.append(op("append", k, u=u, v=v))
            a = b
        h.append(op("flags", k, f=dict(set=True, version=0, check=s["check"], bsk=True, bs=limbs(s["bs"]))))
        h.append(op("padding", k, u=pads[n]))
        if n:
            h.append(op("cat", 1, 2))
    return h

def decode_file(lz, data, read_size, rng, max_calls=400000):
    """Drive lzma_file_info_decoder. Returns (events, ret, index pointer or None, problems)."""
    L = lz.L()
    c = lz.Coder(); idx = C.c_void_p()
    r = c.init("lzma_file_info_decoder", C.byref(idx), lz.UINT64_MAX, len(data))
    assert r == lz.OK
    s = c.strm
    whole = lz.Buf(len(data), data)
    pos = 0; events = []; problems = []
    ret = lz.OK
    sched = list(read_size) if isinstance(read_size, list) else None      # [first chunk, then ...]: the last one repeats
    for _ in range(max_calls):
        if sched is not None:
            want = sched.pop(0) if len(sched) > 1 else sched[0]
        else:
            want = read_size if read_size > 0 else rng.choice([1, 2, 3, 11, 12, 13, 100, 1000, 5000, 8191, 8192, 8193, 20000])
        n = min(want, len(data) - pos)
        if n == 0:
            problems.append(("fileinfo:starved", "decoder wants input at the end of the file (pos %d)" % pos))
            break
        s.next_in = whole.addr + pos; s.avail_in = n; s.next_out = None; s.avail_out = 0
        t_in = s.total_in
        ret = c.code_raw(lz.RUN)
        used = n - s.avail_in
        # accounting of the public lzma_stream fields: nothing behind the given input may be consumed
        if not 0 <= used <= n or (s.next_in or 0) != whole.addr + pos + used or s.total_in != t_in + used:
            problems.append(("fileinfo:accounting", "input of %d bytes at %d: avail_in %d, next_in advanced by %d, total_in by %d (%s)" % (
                n, pos, s.avail_in, (s.next_in or 0) - whole.addr - pos, s.total_in - t_in, lz.retname(ret))))
            break
        ev = {"e": "Call", "pos": pos, "n": n, "ret": lz.retname(ret), "used": used,
              "seek": s.seek_pos if ret == lz.SEEK_NEEDED else 0}
        events.append(ev)
        if ret == lz.OK:
            pos += used
        elif ret == lz.SEEK_NEEDED:
            if s.seek_pos > len(data):
                problems.append(("fileinfo:seek_beyond_file", "seek_pos %d > file size %d" % (s.seek_pos, len(data))))
                break
            pos = s.seek_pos
        else:
            break
    else:
        problems.append(("fileinfo:no_termination", "no result after %d calls" % max_calls))
    if not whole.guards_ok() or whole.data() != data:
        problems.append(("fileinfo:input_modified", "input buffer modified"))
    c.end()
    return events, ret, (idx.value if ret == lz.STREAM_END else None), problems

def check_blocks(lz, coders, p, data, plain, rng, max_blocks):
    """Decode Blocks at the offsets the index gives; compare with the plaintext range. Returns problems."""
    L = lz.L(); it = lz.IndexIter(); probs = []
    L.lzma_index_iter_init(C.byref(it), p)
    blocks = []
    while not L.lzma_index_iter_next(C.byref(it), lz.ITER_BLOCK):
        blocks.append((it.block.compressed_file_offset, it.block.total_size, it.block.unpadded_size,
                       it.block.uncompressed_file_offset, it.block.uncompressed_size, it.stream.flags.contents.check))
    todo = list(range(len(blocks)))
    if len(todo) > max_blocks:
        todo = sorted(rng.sample(todo, max_blocks))
    # random access: locate an offset, decode that Block, compare the byte
    via_locate = []
    if len(plain):
        for _ in range(min(3, len(blocks))):
            t = rng.randrange(len(plain))
            if L.lzma_index_iter_locate(C.byref(it), t):
                probs.append(("random_access:locate", "offset %d of %d not found" % (t, len(plain)))); continue
            via_locate.append((it.block.number_in_file - 1, t))
    for n in todo + [b for b, _ in via_locate]:
        coff, total, unpadded, uoff, usize, check = blocks[n]
        raw = data[coff:coff + total]
        hs = (raw[0] + 1) * 4
        c = lz.Coder()
        r = coders._mk_block_decoder(c, header=raw[:hs], check=check)
        if r != lz.OK:
            probs.append(("random_access:block_header", "block %d at %d: header decode %s" % (n + 1, coff, lz.retname(r)))); continue
        res = lz.run_coder(c, raw[hs:], out_cap=usize + 64)
        b = c.keep[0]
        if res["ret"] != lz.STREAM_END or res["consumed"] != total - hs:
            probs.append(("random_access:block_decode", "block %d at %d: %s after %d of %d bytes" % (
                n + 1, coff, lz.retname(res["ret"]), res["consumed"], total - hs)))
        elif res["out"] != plain[uoff:uoff + usize]:
            probs.append(("random_access:block_content", "block %d: decoded bytes differ from plaintext[%d:%d]" % (n + 1, uoff, uoff + usize)))
        elif L.lzma_block_unpadded_size(C.byref(b)) != unpadded or L.lzma_block_total_size(C.byref(b)) != total:
            probs.append(("random_access:block_sizes", "block %d: lzma_block_unpadded_size %d / total %d, index %d / %d" % (
                n + 1, L.lzma_block_unpadded_size(C.byref(b)), L.lzma_block_total_size(C.byref(b)), unpadded, total)))
        c.end()
    return probs, len(todo) + len(via_locate)

def worker(lz, src, dst, mode):
    from . import coders
    rp = c13_index.Replayer(lz)
    with open(src) as f, open(dst, "w") as out:
        for n, line in enumerate(f):
            item = json.loads(line)
            out.write(json.dumps(dict(begin=n)) + "\n"); out.flush()
            try:
                data, plain, layout, streams = build_file(lz, coders, item)
            except (AssertionError, RuntimeError, IndexError) as e:
                # the encoder failed or its output does not parse as the Streams it should be (header, Blocks,
                # Index of Backward Size bytes, footer): a fault of the library, not of the harness
                import traceback
                out.write(json.dumps(dict(done=n, res=dict(key="fileinfo:encoder_output", step=-1,
                                                           detail=traceback.format_exc()[-1500:]))) + "\n"); out.flush()
                continue
            if mode == "fi_build":
                res = dict(layout=layout, size=len(data), plain=len(plain),
                           history=history_of(streams, [s["pad"] for s in item["streams"]]))
                if item.get("path"):
                    with open(item["path"], "wb") as g:
                        g.write(data)
            else:
                rng = random.Random(item["seed"])
                res = dict(traces=[], problems=[], blocks=0)
                for rs in item["reads"]:
                    events, ret, p, probs = decode_file(lz, data, rs, rng)
                    res["problems"] += probs
                    ev = [{"e": "Reset", "file": layout}] + events
                    if p:
                        try:
                            if item.get("obs"):
                                rp.observe(p, item["obs"])
                            if lz.L().lzma_index_file_size(p) != len(data):
                                raise Mismatch("file_size", "index file size %d, file %d" % (lz.L().lzma_index_file_size(p), len(data)))
                        except Mismatch as e:
                            res["problems"].append(("fileinfo:index:" + e.field, "read size %s: %s" % (rs, e.detail)))
                        it = lz.IndexIter(); lz.L().lzma_index_iter_init(C.byref(it), p); pads = []
                        while not lz.L().lzma_index_iter_next(C.byref(it), lz.ITER_STREAM):
                            pads.append(it.stream.padding)
                        ev.append({"e": "Result", "pads": pads})
                        if rs == item["reads"][0]:
                            pr, nb = check_blocks(lz, coders, p, data, plain, rng, item.get("max_blocks", 6))
                            res["problems"] += pr; res["blocks"] += nb
                        lz.L().lzma_index_end(p, None)
                    res["traces"].append(dict(rs=rs, ret=lz.retname(ret), events=ev))
            out.write(json.dumps(dict(done=n, res=res)) + "\n"); out.flush()
