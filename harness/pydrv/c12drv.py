"""C12 driver: execute an application history (RUN / SYNC_FLUSH / FULL_FLUSH / FULL_BARRIER / FINISH with input,
lzma_filters_update) on a real liblzma encoder, record one event per lzma_code() call, judge the output so far at
every completed flush with (i) a fresh liblzma decoder and (ii) the glue codecs, and describe the bytes written as
the token sequence of spec/XzStreamEnc.tla (parsed by glue only).

History (dict): enc stream|mt|raw|block, chain {pre,lz,props}, check crc|none, grant one|big|some, bsize (units, mt),
ops [{k:'op', a:ACTION, n:units} | {k:'update', target:{pre,lz,props}}], unit (bytes per unit), lzopt {...}.
"""
import ctypes as C, time
from . import lz
from harness.glue import xz as gxz, lzma2 as gl2, lzma as gl1, filters as gflt, crc as gcrc

PROPS = {"p0": (3, 0, 2), "p1": (1, 1, 1), "bad": (4, 1, 2)}
PROPS_BYTE = {(pb * 5 + lp) * 9 + lc: name for name, (lc, lp, pb) in PROPS.items() if name != "bad"}
ACTNUM = {"RUN": 0, "SYNC_FLUSH": 1, "FULL_FLUSH": 2, "FINISH": 3, "FULL_BARRIER": 4}
DELTA_DIST = 3
BIG = 1 << 22

class DriverError(Exception):
    pass

def chain_filters(chain, lzopt):
    """-> lzma_filter[] for a chain record; lzopt: dict_size, mf, mode, nice_len, depth."""
    lc, lp, pb = PROPS[chain["props"]]
    o = lz.lzma_opts(preset=1, lc=lc, lp=lp, pb=pb, **lzopt)
    specs = []
    if chain["pre"] == "delta":
        d = lz.OptDelta(); d.type = 0; d.dist = DELTA_DIST
        specs.append((lz.FILTER_DELTA, d))
    elif chain["pre"] == "x86":
        specs.append((lz.FILTER_X86, None))
    elif chain["pre"] == "armbad":
        # passes lzma_raw_encoder_memusage() and lzma_block_header_size(); refused by lzma_simple_coder_init()
        b = lz.OptBcj(); b.start_offset = 2
        specs.append((lz.FILTER_ARM, b))
    specs.append((lz.FILTER_LZMA2 if chain["lz"] == "lzma2" else lz.FILTER_LZMA1, o))
    return lz.make_filters(specs)

def gen_repetitive(rng, n):
    """Low entropy: a tiny alphabet, most bytes copied from a short distance back (long, overlapping matches that
    reach back across every point of the input), or a pure period-p sequence with rare mutations."""
    out = bytearray()
    if rng.random() < 0.5:
        back = rng.choice([3, 50, 50, 400])
        alpha = rng.choice([2, 2, 3, 16])
        while len(out) < n:
            i = len(out)
            if i > back and rng.random() < 0.875:
                out.append(out[i - 1 - rng.randrange(back)])
            else:
                out.append(97 + rng.randrange(alpha))
    else:
        p = rng.choice([1, 2, 3, 7, 31, 200])
        unit = bytes(rng.getrandbits(8) for _ in range(p))
        while len(out) < n:
            out += unit
            if rng.random() < 0.05:
                out[-1] ^= 1 << rng.randrange(8)
    return bytes(out[:n])

def gen_data(rng, n, family="mixed"):
    """family 'mixed': segments of random bytes / words (some x86 call opcodes) / runs; 'repetitive': see above."""
    if family == "repetitive":
        return gen_repetitive(rng, n)
    if family == "text":
        # compresses about 3:1: an LZMA2 chunk fills up (64 KiB compressed) after roughly 200 KB
        vocab = [bytes(rng.choice(b"abcdefghijklmnopqrstuvwxyz") for _ in range(rng.randint(2, 9))) for _ in range(3000)]
        parts = []; ln = 0
        while ln < n:
            w = rng.choice(vocab) if rng.random() < 0.93 else b"%d" % rng.getrandbits(24)
            parts.append(w); parts.append(b" " if rng.random() < 0.9 else b"\n"); ln += len(w) + 1
        return b"".join(parts)[:n]
    out = bytearray()
    words = [b"alpha ", b"beta ", b"gamma\n", b"\xe8\x10\x00\x00\x00", b"\xe9\xf0\xff\xff\xff", b"0123456789", b"\x00\x00\x00\x00"]
    while len(out) < n:
        k = rng.random()
        seg = rng.choice([1, 3, 17, 200, 3000, 70000])
        seg = min(seg, n - len(out))
        if k < 0.35:
            out += bytes(rng.getrandbits(8) for _ in range(min(seg, 4096)))
            if seg > 4096:
                out += rng.randbytes(seg - 4096)
        elif k < 0.8:
            while seg > 0:
                w = rng.choice(words)[:seg]
                out += w; seg -= len(w)
        else:
            out += bytes([rng.getrandbits(8)]) * seg
    return bytes(out[:n])

_SHARED = {}
def shared_data(seed, n, family):
    import random
    k = (seed, n, family)
    if k not in _SHARED:
        _SHARED.clear()
        _SHARED[k] = gen_data(random.Random(seed), n, family)
    return _SHARED[k]

def chunk_boundaries(hist):
    """Input offsets at which the real encoder closes LZMA2 chunks when it gets hist's shared data in one piece with
    LZMA_FINISH (chunks close there because they are full).  Found with glue only."""
    data = shared_data(hist["data_seed"], hist["data_len"], hist["data"])
    f = chain_filters(hist["chain"], hist["lzopt"])
    c = lz.Coder()
    if c.init("lzma_raw_encoder", f) != lz.OK:
        raise DriverError("raw encoder init failed")
    res = lz.run_coder(c, data)
    c.end()
    r = gl2.decode(res["out"], hist["lzopt"]["dict_size"], collect=None)
    offs = []; pos = 0
    for ch in r.chunks:
        if ch["kind"] == "end":
            break
        pos += ch["usize"]
        offs.append(dict(end=pos, kind=ch["kind"]))
    return offs[:-1]

# ------------------------------------------------------------------------------------------------ decoding judges
def _lib_decode(init, args, data, finish):
    """Fresh liblzma decoder over `data` (all at once, big output). -> (out, last ret name)."""
    c = lz.Coder()
    r = c.init(init, *args)
    if r != lz.OK:
        raise DriverError("decoder init %s -> %s" % (init, lz.retname(r)))
    s = c.strm
    ib = lz.Buf(max(len(data), 1), data)
    out = bytearray()
    ob = lz.Buf(1 << 18)
    s.next_in = ib.addr; s.avail_in = len(data)
    ret = lz.OK
    for _ in range(100000):
        s.next_out = ob.addr; s.avail_out = ob.size
        ai = s.avail_in
        ret = c.code_raw(lz.FINISH if finish else lz.RUN)
        got = ob.size - s.avail_out
        out += ob.data(got)
        if ret != lz.OK:
            break
        if got == 0 and s.avail_in == ai:
            # no progress possible: the decoder wants more input
            ret = c.code_raw(lz.FINISH if finish else lz.RUN)
            break
    c.end()
    return bytes(out), lz.retname(ret)

class Judge:
    """Decodes the output so far.  kind: 'stream' | 'raw' | 'block'."""
    def __init__(self, hist, filters0, lzopt):
        self.h = hist; self.filters0 = filters0; self.lzopt = lzopt
        self.enc = hist["enc"]; self.chain0 = hist["chain"]
        self.check = lz.CHECK_CRC32 if hist["check"] == "crc" else lz.CHECK_NONE
        self.ds = lzopt["dict_size"]

    def lib(self, out, finish):
        if self.enc in ("stream", "mt"):
            return _lib_decode("lzma_stream_decoder", (lz.UINT64_MAX, 0), out, finish)
        if self.enc == "raw":
            return _lib_decode("lzma_raw_decoder", (self.filters0,), out, finish)
        b = lz.Block(); b.version = 0; b.check = self.check
        b.compressed_size = lz.VLI_UNKNOWN; b.uncompressed_size = lz.VLI_UNKNOWN
        b.filters = C.cast(self.filters0, C.POINTER(lz.Filter))
        if lz.L().lzma_block_header_size(C.byref(b)) != lz.OK:
            raise DriverError("lzma_block_header_size failed")
        self._keep = b
        return _lib_decode("lzma_block_decoder", (C.byref(b),), out, finish)

    def _unfilter(self, data):
        pre = self.chain0["pre"]
        if pre == "delta":
            return gflt.delta(data, DELTA_DIST, False)
        if pre == "x86":
            return gflt.bcj(lz.FILTER_X86, data, 0, False)
        return data

    def glue(self, out):
        """-> (decoded bytes, complete?, tokens, detail)."""
        if self.enc in ("stream", "mt"):
            r = gxz.parse(out, concatenated=False)
            if r.verdict not in ("ok", "truncated"):
                return r.output, False, None, "glue verdict %s at %s (%s)" % (r.verdict, r.error_offset, r.detail)
            o = r.output
            if r.verdict == "truncated" and r.streams and r.streams[0]["blocks"]:
                B = r.streams[0]["blocks"][-1]
                if "unpadded_size" not in B and _pre_of(B["filters"]) == "x86":
                    # a BCJ decoder cannot know the last bytes of an unfinished Block yet
                    o = o[:max(len(o) - min(5, B.get("out_size", 0)), 0)]
            return o, r.verdict == "ok", tokens_from_xz(r, self.enc), r.verdict
        if self.chain0["lz"] == "lzma1":
            lc, lp, pb = PROPS[self.chain0["props"]]
            if len(out) < 5:
                return b"", False, [], "need_more"
            r = gl1.decode(out, lc=lc, lp=lp, pb=pb, dict_size=self.ds, collect=None)
            if r.status not in ("ok_eopm", "need_more"):
                return r.out, False, None, "glue lzma status %s" % r.status
            done = r.status == "ok_eopm" and r.consumed == len(out)
            if r.status == "ok_eopm" and not done:
                return r.out, False, None, "bytes after the end marker"
            o = self._unfilter(r.out)
            if self.chain0["pre"] == "x86" and not done:
                o = o[:max(len(o) - 5, 0)]
            return o, done, ([dict(kind="lzma1_end")] if done else []), r.status
        r = gl2.decode(out, self.ds, collect=None)
        if r.status not in ("ok", "need_more"):
            return r.out, False, None, "glue lzma2 status %s" % r.status
        toks = tokens_from_chunks(r.chunks)
        done = r.status == "ok"
        o = r.out
        if self.enc == "block" and done:
            padn = (-r.consumed) % 4
            csz = gcrc.check_size(self.check)
            rest = out[r.consumed:]
            full = len(rest) == padn + csz
            if len(rest) > padn + csz or any(rest[:padn]):
                return o, False, None, "bad Block padding / trailing bytes"
            if full:
                plain = self._unfilter(o)
                if csz and rest[padn:] != gcrc.check_bytes(self.check, plain):
                    return o, False, None, "Check mismatch"
                toks.append(dict(kind="block_end", n=len(o)))
            done = full
        elif self.enc == "raw" and done and r.consumed != len(out):
            return o, False, None, "bytes after the LZMA2 end marker"
        o = self._unfilter(o)
        if self.chain0["pre"] == "x86" and not (r.status == "ok"):
            o = o[:max(len(o) - 5, 0)]       # a BCJ decoder cannot know the last bytes of an unfinished payload yet
        return o, done, toks, r.status

_WHERE = {"stream header": "stream_header", "block header / index": "boundary", "block header": "block_header",
          "compressed data": "data", "block padding": "padding", "check": "check", "index": "index",
          "index padding": "index", "index crc32": "index", "stream footer": "footer"}

def position(judge, out):
    """(number of complete format elements, element the output ends in) - by glue only."""
    enc = judge.enc
    if enc in ("stream", "mt"):
        r = gxz.parse(out, concatenated=False)
        toks = tokens_from_xz(r, enc)
        if r.verdict == "ok":
            return len(toks), "end"
        if r.verdict != "truncated":
            return len(toks), "error"
        w = _WHERE.get(r.detail, "?")
        if enc == "mt" and w in ("boundary", "block_header", "padding", "check"):
            w = "data"
        return len(toks), w
    if judge.chain0["lz"] == "lzma1":
        toks = judge.glue(out)[2]
        return (len(toks), "end" if toks else "data") if toks is not None else (0, "error")
    r = gl2.decode(out, judge.ds, collect=None)
    toks = tokens_from_chunks(r.chunks)
    if r.status == "need_more" or enc == "raw":
        return len(toks), "data"
    if r.status != "ok":
        return len(toks), "error"
    rest = len(out) - r.consumed
    padn = (-r.consumed) % 4
    csz = gcrc.check_size(judge.check)
    if rest < padn:
        return len(toks), "padding"
    if rest < padn + csz:
        return len(toks), "check"
    return len(toks) + 1, "end"

def _props_name(b):
    return PROPS_BYTE.get(b, "p?%s" % b)

def tokens_from_chunks(chunks):
    toks = []
    for ch in chunks:
        if ch["status"] != "ok":
            break
        if ch["kind"] == "lzma":
            rs = {"none": "none", "state": "state", "state+props": "props", "all": "all"}[ch["reset"]]
            toks.append(dict(kind="lzma", reset=rs, hprops=_props_name(ch["props"]) if ch["props"] is not None else "nil"))
        elif ch["kind"] == "uncompressed":
            toks.append(dict(kind="unc", dictReset=(ch["reset"] == "dict")))
        elif ch["kind"] == "end":
            toks.append(dict(kind="lzma2_end"))
    return toks

def _pre_of(filters):
    ids = [f[0] for f in filters]
    if len(ids) == 1:
        return "none"
    return {lz.FILTER_DELTA: "delta", lz.FILTER_X86: "x86"}.get(ids[0], "id%x" % ids[0])

def tokens_from_xz(r, enc):
    toks = []
    if not r.streams:
        return toks
    S = r.streams[0]
    toks.append(dict(kind="stream_header"))
    for B in S["blocks"]:
        pre = _pre_of(B["filters"])
        if enc == "mt":
            if "unpadded_size" in B:
                toks.append(dict(kind="mt_block", n=B["out_size"], pre=pre))
            continue
        toks.append(dict(kind="block_header", pre=pre))
        toks += tokens_from_chunks(B["lzma2"].chunks)
        if "unpadded_size" in B:
            toks.append(dict(kind="block_end", n=B["out_size"]))
    if S["index_size"] is not None:
        toks.append(dict(kind="index", records=[uc for _, uc in S["records"]]))
    if "size" in S:
        toks.append(dict(kind="stream_footer"))
    return toks

# ------------------------------------------------------------------------------------------------ the run
def default_lzopt(rng):
    mf = rng.choice([lz.MF_HC3, lz.MF_HC4, lz.MF_BT2, lz.MF_BT3, lz.MF_BT4, lz.MF_BT4])
    return dict(dict_size=rng.choice([1 << 16, 1 << 20]), mf=mf, mode=rng.choice([lz.MODE_FAST, lz.MODE_NORMAL]),
                nice_len=rng.choice([8, 32, 64, 273]), depth=rng.choice([0, 4]))

def run_history(hist, rng, max_calls=400000):
    """Execute `hist` on a real encoder.
    -> dict(events=[...], ops=[observed per op], problems=[(key, detail)], out=bytes, data=bytes)."""
    L = lz.L()
    enc = hist["enc"]; chain0 = hist["chain"]; unit = hist["unit"]; grant = hist["grant"]
    lzopt = hist.get("lzopt") or default_lzopt(rng)
    hist["lzopt"] = lzopt
    total = sum(o["n"] for o in hist["ops"] if o["k"] == "op") * unit
    probe = hist.get("probe", True)
    hist.setdefault("data", rng.choice(["mixed", "mixed", "repetitive"]))
    if "data_seed" in hist:
        # a fixed input shared by a family of histories (every history uses a prefix of it)
        data = shared_data(hist["data_seed"], max(hist["data_len"], total), hist["data"])[:total]
    else:
        data = gen_data(rng, total, hist["data"])
    filters0 = chain_filters(chain0, lzopt)
    check = lz.CHECK_CRC32 if hist["check"] == "crc" else lz.CHECK_NONE
    # a failing lzma_allocator (only histories that ask for it: every allocation goes through Python)
    import threading
    ast = dict(mode=None, count=0, nopts=0, tid=threading.get_ident())
    def fail_at(n):
        if ast["mode"] is None or threading.get_ident() != ast["tid"]:
            return False
        ast["count"] += 1
        return ast["mode"] == "copy" or ast["count"] > ast["nopts"]
    wants_alloc = any(u.get("fail", "none") != "none" for o in hist["ops"]
                      for u in ([o] if o["k"] == "update" else o.get("inject", [])))
    alloc = lz.CountingAllocator(fail_at=fail_at) if wants_alloc else None
    c = lz.Coder(allocator=alloc)
    keep = [filters0, alloc]
    if enc == "stream":
        r = c.init("lzma_stream_encoder", filters0, check)
    elif enc == "mt":
        m = lz.Mt(); m.threads = 2; m.block_size = hist["bsize"] * unit; m.timeout = 0
        m.filters = C.cast(filters0, C.POINTER(lz.Filter)); m.check = check
        keep.append(m)
        r = c.init("lzma_stream_encoder_mt", C.byref(m))
    elif enc == "raw":
        r = c.init("lzma_raw_encoder", filters0)
    else:
        b = lz.Block(); b.version = 0; b.check = check; b.filters = C.cast(filters0, C.POINTER(lz.Filter))
        keep.append(b)
        r = c.init("lzma_block_encoder", C.byref(b))
    if r != lz.OK:
        raise DriverError("encoder init %s/%s -> %s" % (enc, chain0, lz.retname(r)))
    judge = Judge(hist, filters0, lzopt)
    s = c.strm
    ib = lz.Buf(max(total, 1), data)
    cap = total + total // 2 + (1 << 16)
    ob = lz.Buf(cap)
    ip = 0; op = 0
    events = [dict(e="Reset", enc=enc, chain=chain0, check=hist["check"], bsize=hist["bsize"] * unit,
                   grant=grant)]
    obs_ops = []
    problems = []
    ncalls = 0
    dead = False       # a fatal code was returned: no more judging of "continues normally"
    ended = False      # LZMA_FINISH has completed
    runaway = False
    unrealised = 0
    def do_update(u, mid):
        f = chain_filters(u["target"], lzopt)
        keep.append(f)
        fm = u.get("fail", "none")
        ntok, where = position(judge, ob.data(op))
        ast["count"] = 0
        ast["nopts"] = 1 + (1 if u["target"]["pre"] in ("delta", "armbad") else 0)
        ast["mode"] = None if fm == "none" else fm
        try:
            ret = L.lzma_filters_update(C.byref(s), f)
        finally:
            ast["mode"] = None
        events.append(dict(e="Update", target=u["target"], ret=lz.retname(ret), fail=fm, ntok=ntok))
        obs_ops.append(dict(k="update", ret=lz.retname(ret), mid=mid, where=where, ntok=ntok))
    for o in hist["ops"]:
        if o["k"] == "update":
            do_update(o, False)
            continue
        inject = list(o.get("inject", []))
        a = o["a"]; n = o["n"] * unit
        left = n
        ret = lz.OK
        if enc == "mt" and a != "RUN" and n == 0:
            # let the worker threads consume what they have and go to sleep: the action alone must wake them
            time.sleep(0.01)
        while True:
            if ncalls >= max_calls or cap - op <= 0:
                problems.append(("runaway:%s:%s" % (enc, a), "the encoder does not finish %s: %d calls, %d bytes of output for %d bytes of input"
                                 % (a, ncalls, op, total)))
                dead = True; runaway = True
                break
            ncalls += 1
            if grant == "one":
                aout = 1
            elif grant == "big":
                aout = cap - op
            else:
                aout = rng.choice([1, 2, 5, 13, 100, 1000])
            aout = min(aout, cap - op)
            s.next_in = ib.addr + ip; s.avail_in = left
            s.next_out = ob.addr + op; s.avail_out = aout
            ret = c.code_raw(ACTNUM[a])
            uin = left - s.avail_in; uout = aout - s.avail_out
            if not (0 <= uin <= left and 0 <= uout <= aout):
                problems.append(("driver:accounting", "uin=%d uout=%d" % (uin, uout)))
                dead = True
                break
            ip += uin; op += uout; left -= uin
            events.append(dict(e="Call", a=a, ain=left + uin, aout=aout))
            events.append(dict(e="Ret", ret=lz.retname(ret), uin=uin, uout=uout, tin=s.total_in, tout=s.total_out))
            if ret != lz.OK or (a == "RUN" and left == 0):
                break
            # lzma_filters_update() between two calls of the unfinished operation, at the planned position
            while inject:
                ntok, where = position(judge, ob.data(op))
                # same place: elements completed, element being written, input of the operation still unconsumed
                if (ntok, where, left) != (inject[0]["ntok"], inject[0]["where"], inject[0]["during"]["left"] * unit):
                    break
                do_update(inject.pop(0), True)
        unrealised += len(inject)
        if runaway:
            obs_ops.append(dict(k="op", a=a, ret="RUNAWAY", given=ip))
            break
        rn = lz.retname(ret)
        rec = dict(k="op", a=a, ret=rn, given=ip)
        obs_ops.append(rec)
        if not (ib.guards_ok() and ob.guards_ok()):
            problems.append(("driver:guard", "guard bytes modified"))
        if ret not in (lz.OK, lz.STREAM_END, lz.BUF_ERROR):
            dead = True
        # ---- judges
        done_flush = ret == lz.STREAM_END and a != "RUN" and not (enc == "mt" and a == "FULL_BARRIER")
        if done_flush or (probe and not dead and ret in (lz.OK, lz.STREAM_END)):
            outsofar = ob.data(op)
            ended = ended or (a == "FINISH" and ret == lz.STREAM_END)
            fin = ended
            lib_out, lib_ret = judge.lib(outsofar, fin)
            g_out, g_done, g_toks, g_detail = judge.glue(outsofar)
            exp_ret = ("STREAM_END",) if fin else ("OK", "BUF_ERROR")
            lib_ok = data[:len(lib_out)] == lib_out and lib_ret in exp_ret
            glue_ok = g_toks is not None and data[:len(g_out)] == g_out and (g_done or not fin)
            ev = dict(e="FlushCheck" if done_flush else "Probe",
                      lib=len(lib_out) if lib_ok else -1, glue=len(g_out) if glue_ok else -1, fin=fin)
            events.append(ev)
            rec["check"] = dict(lib=ev["lib"], glue=ev["glue"], libret=lib_ret, glue_detail=g_detail)
            if not lib_ok:
                problems.append(("decode:liblzma:%s" % a, "fresh decoder on the output so far: ret=%s, %d bytes, prefix-of-input=%s"
                                 % (lib_ret, len(lib_out), data[:len(lib_out)] == lib_out)))
            if not glue_ok:
                problems.append(("decode:glue:%s" % a, "glue on the output so far: %s, %d bytes" % (g_detail, len(g_out))))
    out = ob.data(op)
    g_out, g_done, g_toks, g_detail = judge.glue(out)
    if g_toks is None:
        problems.append(("final:glue", g_detail))
        g_toks = []
    events.append(dict(e="Final", given=ip))
    events[0]["toks"] = g_toks
    c.end()
    if alloc is not None and alloc.errors:
        problems.append(("alloc:bad_free", "; ".join(alloc.errors[:3])))
    return dict(events=events, ops=obs_ops, problems=problems, out=out, data=data, toks=g_toks, ncalls=ncalls,
                unrealised=unrealised)

# ------------------------------------------------------------------------------------------------ worker process
def worker_main():
    """Child process (crash isolation): one JSON line {hist, seed} in, one JSON line out."""
    import sys, json, random, os
    from lib import build
    so = os.environ["C12_LIBLZMA"]
    lz.load(so)
    out = sys.stdout
    for line in sys.stdin:
        req = json.loads(line)
        if "boundaries" in req:
            out.write(json.dumps(dict(ok=True, boundaries=chunk_boundaries(req["boundaries"]))) + "\n"); out.flush()
            continue
        # tell the parent what is being executed, in case the process dies
        try:
            res = run_history(req["hist"], random.Random(req["seed"]))
            ans = dict(ok=True, hist=req["hist"], events=res["events"], ops=res["ops"],
                       problems=res["problems"], toks=res["toks"], ncalls=res["ncalls"], unrealised=res["unrealised"])
        except DriverError as e:
            ans = dict(ok=False, error=str(e), hist=req["hist"])
        out.write(json.dumps(ans) + "\n"); out.flush()

if __name__ == "__main__":
    worker_main()
