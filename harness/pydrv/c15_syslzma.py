"""C15 helper (run as a separate process, no sanitizer preload): pushes the TLC jobs through a *released* liblzma
found on the system (ctypes) using public filter chains [filter, LZMA2] and prints the lines whose bytes differ
from the TLA+ expectation.  usage: c15_syslzma.py <liblzma.so> < driver-lines"""
import sys, ctypes as C

IDS = {"x86": 4, "powerpc": 5, "ia64": 6, "arm": 7, "armthumb": 8, "sparc": 9, "arm64": 10, "riscv": 11, "delta": 3}
LZMA2 = 0x21
UNKNOWN = (1 << 64) - 1


class Filter(C.Structure):
    _fields_ = [("id", C.c_uint64), ("options", C.c_void_p)]


class Bcj(C.Structure):
    _fields_ = [("start_offset", C.c_uint32)]


class Delta(C.Structure):
    _fields_ = [("type", C.c_int), ("dist", C.c_uint32), ("r1", C.c_uint32), ("r2", C.c_uint32), ("r3", C.c_uint32),
                ("r4", C.c_uint32), ("p1", C.c_void_p), ("p2", C.c_void_p)]


def main():
    L = C.CDLL(sys.argv[1])
    L.lzma_version_string.restype = C.c_char_p
    ver = L.lzma_version_string().decode()
    lz = C.create_string_buffer(1024)
    if L.lzma_lzma_preset(lz, 0):
        print("SYSERROR preset"); return
    for f in (L.lzma_raw_buffer_encode, L.lzma_raw_buffer_decode):
        f.restype = C.c_int
    done = bad = 0
    for ln, line in enumerate(sys.stdin, 1):
        t = line.split()
        if not t or t[0] not in ("S", "D"):
            continue
        if t[0] == "S":
            arch, enc, off, data, exp = t[1], int(t[2]), int(t[3], 16), t[4], t[5]
            opt = Bcj(off)
        else:
            arch, enc, data, exp = "delta", int(t[2]), t[3], t[4]
            opt = Delta(0, int(t[1]), 0, 0, 0, 0, None, None)
        data = b"" if data == "-" else bytes.fromhex(data)
        exp = b"" if exp == "-" else bytes.fromhex(exp)
        if not L.lzma_filter_encoder_is_supported(C.c_uint64(IDS[arch])):
            continue
        withf = (Filter * 3)(Filter(IDS[arch], C.cast(C.pointer(opt), C.c_void_p)), Filter(LZMA2, C.cast(lz, C.c_void_p)),
                             Filter(UNKNOWN, None))
        plain = (Filter * 2)(Filter(LZMA2, C.cast(lz, C.c_void_p)), Filter(UNKNOWN, None))
        n = len(data)
        comp = C.create_string_buffer(n + 1024)
        cpos = C.c_size_t(0)
        r = L.lzma_raw_buffer_encode(withf if enc else plain, None, data, C.c_size_t(n), comp, C.byref(cpos), C.c_size_t(n + 1024))
        back = C.create_string_buffer(n + 1)
        ip = C.c_size_t(0); op = C.c_size_t(0)
        r2 = L.lzma_raw_buffer_decode(plain if enc else withf, None, comp, C.byref(ip), cpos, back, C.byref(op), C.c_size_t(n)) if r == 0 else -1
        done += 1
        if r != 0 or r2 != 0 or back.raw[:n] != exp:
            bad += 1
            print("SYSMISMATCH line=%d arch=%s enc=%d ret=%d/%d got=%s want=%s" % (ln, arch, enc, r, r2, back.raw[:n].hex(), exp.hex()))
    print("SYSDONE version=%s compared=%d mismatches=%d" % (ver, done, bad))


if __name__ == "__main__":
    main()
