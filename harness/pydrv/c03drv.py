"""C03 / C05: concretisers (abstract TLA+ objects -> bytes through harness.glue) and ctypes drivers.

Abstract objects are the JSON forms of the records of spec/Lz.tla (symbols), spec/Lzma2.tla (chunks)
and spec/XzFile.tla (files).  Nothing here decides a property: the expected values come from TLC.
"""
import ctypes as C, random, struct
from harness.glue import lzma as glz, lzma2 as gl2, xz as gxz, crc as gcrc, vli as gvli, filters as gflt
from harness.pydrv import lz

BYTEMAP = {1: 0x41, 2: 0xFE}          # the two-letter alphabet of the Lz models

# ------------------------------------------------------------------------------------------ Lz symbols
def sym_to_glue(y):
    t = y['t']
    if t == 'lit':
        return ('lit', BYTEMAP[y['b']])
    if t == 'match':
        return ('match', y['d'], y['n'])
    if t == 'rep':
        return ('rep', y['i'], y['n'])
    if t == 'shortrep':
        return ('shortrep',)
    return ('eopm',)

PRE = [('lit', BYTEMAP[1]), ('lit', BYTEMAP[2]), ('match', 1, 2)]
# more output than the smallest dictionary (4 KiB) holds: the circular buffer of the decoder has wrapped
BIGPRE = [('lit', 0x33), ('lit', 0x77), ('lit', 0x33)] + [('match', 1, 273)] * 17
BIGPRE_OUT = (bytes([0x33, 0x77]) * 2400)[:3 + 17 * 273]

def lz_plan_to_lzma2(p):
    """GenLz plan (known size) -> (raw LZMA2 stream bytes, expected output prefix, n claimed)."""
    syms = [sym_to_glue(y) for y in p['syms']]
    claimed = sum(y['n'] for y in p['syms'])        # the chunk header claims every symbol's bytes
    plan = []
    if p['ctx'] == 'fresh':
        plan.append(dict(kind='lzma', reset='all', symbols=syms, usize=max(claimed, 1)))
    elif p['ctx'] == 'afterwrap':
        plan.append(dict(kind='lzma', reset='all', symbols=BIGPRE))
        plan.append(dict(kind='lzma', reset='all', symbols=syms, usize=max(claimed, 1)))
    else:
        plan.append(dict(kind='lzma', reset='all', symbols=PRE))
        plan.append(dict(kind='lzma', reset='none' if p['ctx'] == 'none' else 'state', symbols=syms, usize=max(claimed, 1)))
    plan.append(dict(kind='end'))
    chunks, _ = gl2.encode_chunks(plan)
    return gl2.write_chunks(chunks)

def lz_plan_to_lzma1(p, eopm=True):
    syms = [sym_to_glue(y) for y in p['syms']]
    if eopm and (not syms or syms[-1] != ('eopm',)):
        syms = syms + [('eopm',)]
    return glz.encode_symbols(syms, 3, 0, 2)

# ------------------------------------------------------------------------------------------ LZMA2 chunks
RESETMAP = {'none': 'none', 'state': 'state', 'props': 'state+props', 'all': 'all'}
GOOD_PROPS = [(lc, lp, pb) for lc in range(9) for lp in range(5) for pb in range(5) if lc + lp <= 4]

def concretise_chunks(abs_chunks, rng, nsym=6, small=True, big=False):
    """abstract chunk list -> dict(data=bytes, sizes=[(c, n)], outs=[bytes per chunk], plan)
    The encoder state follows exactly the resets the chunks carry; payload verdicts: 'err' = a match from
    before the dictionary, 'short' = one byte more than the LZMA data needs, 'long' = one byte fewer."""
    plan = []
    avail = 0
    reps = [0, 0, 0, 0]
    meta = []
    for ch in abs_chunks:
        k = ch['k']
        if k == 'end':
            plan.append(dict(kind='end')); meta.append(('end', None)); continue
        if k == 'bad':
            plan.append(dict(kind='raw', bytes=bytes([rng.choice([0x03, 0x04, 0x10, 0x40, 0x7F])]))); meta.append(('bad', None)); continue
        if k == 'unc':
            n = rng.randrange(1, 9 if small else 300)
            if big or ch.get('big'):
                n = 4200 + rng.randrange(0, 40)         # more than the 4 KiB dictionary holds
            elif ch.get('size'):
                n = ch['size']
            data = bytes(rng.randrange(256) for _ in range(n))
            if ch['reset'] == 'dict':
                avail = 0
            avail += n
            plan.append(dict(kind='uncompressed', dict_reset=(ch['reset'] == 'dict'), data=data)); meta.append(('unc', None)); continue
        reset = ch['reset']
        if reset == 'all':
            avail = 0
        if reset != 'none':
            reps = [0, 0, 0, 0]
        syms, n, reps2 = glz.random_symbols(rng, nsym if small else rng.randrange(1, 60), dict_size=4096, history=avail, reps=reps,
                                            max_out=40 if small else 2000)
        if not syms:
            syms, n, reps2 = [('lit', 0x55)], 1, reps
        if big or ch.get('big'):
            # fill the dictionary (and wrap the decoder's buffer): a literal and long copies of it
            syms = syms + [('lit', rng.randrange(256))] + [('match', 0, 273)] * 16
            n += 1 + 16 * 273
            reps2 = [0, 0, 0, 0]
        it = dict(kind='lzma', reset=RESETMAP[reset])
        if reset in ('props', 'all'):
            lc, lp, pb = rng.choice(GOOD_PROPS)
            it.update(lc=lc, lp=lp, pb=pb)
            if ch.get('props') == 'bad':
                it['props'] = rng.choice([225, 255, 8 + 9 * 0 + 45 * 0 + 0, 4 + 9 * 1, 3 + 9 * 2 + 45 * 4])  # > 224 or lc+lp > 4
                if it['props'] == 8:
                    it['props'] = 8 + 9 * 1      # lc=8, lp=1
        pl = ch.get('pl', 'ok')
        if pl == 'err':
            syms = syms + [('match', avail + n + 7, 2)]
            it['usize'] = n + 2
        it['symbols'] = syms
        avail += n
        reps = reps2
        plan.append(it); meta.append(('lzma', pl))
    chunks, _ = gl2.encode_chunks(plan)
    sizes, outs, parts = [], [], []
    for c, (kind, pl) in zip(list(chunks), meta):
        if kind == 'lzma':
            if pl == 'short':
                c['csize'] = len(c['payload']) + 1
                c['payload'] = c['payload'] + b"\x00"
            elif pl == 'long':
                c['csize'] = len(c['payload']) - 1
            elif pl == 'rcend':
                # same symbols, but the range coder does not end with code == 0: change the last byte until the independent
                # decoder says exactly that about this chunk
                base = b"".join(parts)
                clean = gl2.decode(base + gl2.write_chunk(c) + b"\x00", 4096, collect=None)
                if clean.status != 'ok':
                    # the chunk is rejected before its payload matters (invalid context): any change of the last byte will do
                    c = dict(c, payload=c['payload'][:-1] + bytes([c['payload'][-1] ^ 1]))
                else:
                    done = False
                    other = None
                    for delta in list(range(1, 256)):
                        cand = dict(c, payload=c['payload'][:-1] + bytes([(c['payload'][-1] + delta) & 0xFF]))
                        r = gl2.decode(base + gl2.write_chunk(cand) + b"\x00", 4096, collect=None)
                        if r.status == 'error:chunk:rc_end':
                            c = cand; done = True; break
                        if other is None and r.status.startswith('error:chunk:'):
                            other = cand
                    if not done and other is not None:
                        c = other; done = True        # the last byte still steers a symbol: the payload is invalid all the same
                    if not done:
                        raise RuntimeError("could not build a chunk with a dirty range coder end")
                chunks[len(parts)] = c
        b = gl2.write_chunk(c)
        parts.append(b)
        sizes.append((len(b), c.get('usize', len(c.get('payload', b""))) if kind in ('lzma', 'unc') else 0))
    # declared meaning of each chunk: what a decoder that accepts it must deliver
    pos = 0
    _, total = gl2.encode_chunks(plan)
    for (kind, pl), (cb, n) in zip(meta, sizes):
        if kind in ('lzma', 'unc'):
            outs.append(total[pos:pos + n]); pos += n
        else:
            outs.append(b"")
    return dict(data=b"".join(parts), sizes=sizes, outs=outs, parts=parts)

# ------------------------------------------------------------------------------------------ catalogue for XzSpace
def C_(k, reset='none', props='ok', pl='ok', **kw):
    return dict(k=k, reset=reset, props=props, pl=pl, **kw)

CATALOGUE_SHAPES = [
    # valid data
    [C_('lzma', 'all'), C_('end')],
    [C_('end')],                                                                  # empty Block
    [C_('unc', 'dict'), C_('end')],
    [C_('lzma', 'all'), C_('lzma', 'none'), C_('lzma', 'state'), C_('end')],
    [C_('unc', 'dict'), C_('lzma', 'props'), C_('unc', 'none'), C_('end')],       # props after an uncompressed reset; unc after lzma
    [C_('lzma', 'all'), C_('unc', 'none'), C_('lzma', 'none'), C_('end')],         # lzma continues after an uncompressed chunk
    [C_('lzma', 'all'), C_('lzma', 'props'), C_('lzma', 'all'), C_('end')],        # property change, second dictionary reset
    [C_('lzma', 'all', big=True), C_('lzma', 'all'), C_('end')],                  # dictionary reset after the window has wrapped
    [C_('unc', 'dict', big=True), C_('unc', 'dict'), C_('lzma', 'props'), C_('end')],
    [C_('unc', 'dict', size=48), C_('end')],                                      # plain bytes: content chosen per filter chain (BCJ tails)
    # invalid data (one LZMA2 rule each)
    [C_('lzma', 'props'), C_('end')],                                             # first chunk does not reset the dictionary
    [C_('unc', 'dict'), C_('lzma', 'state'), C_('end')],                          # no properties after a dictionary reset
    [C_('lzma', 'all'), C_('bad'), C_('end')],
    [C_('lzma', 'all', props='bad'), C_('end')],
    [C_('lzma', 'all', pl='err'), C_('end')],
    [C_('lzma', 'all'), C_('lzma', 'none', pl='short'), C_('end')],
    [C_('lzma', 'all'), C_('lzma', 'state', pl='rcend'), C_('end')],              # range coder not finished (rc_is_finished)
]

def build_catalogue(seed):
    """Deterministic catalogue of Block data: abstract chunks + real sizes + bytes."""
    cat = []
    for did, shape in enumerate(CATALOGUE_SHAPES, 1):
        rng = random.Random(seed * 1000 + did)
        r = concretise_chunks(shape, rng)
        chunks = []
        for i, (ch, (cb, n)) in enumerate(zip(shape, r['sizes']), 1):
            chunks.append(dict(k=ch['k'], reset=ch['reset'], props=ch['props'], pl=ch['pl'], n=n, c=cb, id=i))
        cat.append(dict(did=did, chunks=chunks, data=r['data'], out=b"".join(r['outs'])))
    return cat

def catalogue_json(cat):
    import json
    return "\n".join(json.dumps(dict(did=e['did'], chunks=e['chunks'])) for e in cat) + "\n"

# ------------------------------------------------------------------------------------------ abstract file -> bytes
FILTER_ID = {'lzma2': 0x21, 'delta': 3, 'x86': 4, 'powerpc': 5, 'ia64': 6, 'arm': 7, 'armthumb': 8, 'sparc': 9,
             'arm64': 10, 'riscv': 11, 'unknown': 0x22, 'reserved': (1 << 62) + 5}
BCJ_ALIGN = {'x86': 1, 'powerpc': 4, 'ia64': 16, 'arm': 4, 'armthumb': 2, 'sparc': 4, 'arm64': 4, 'riscv': 2}
BIG_STANDIN = 134217728          # XzFile.tla BigStandIn
BIG_EXP = {'p31': 31, 'p32': 32, 'p33': 33, 'p62': 62}

def real_value(v, tag):
    """the integer a model value stands for: BIG tags mean true value + 2^e (XzFile.tla)"""
    if not tag:
        return v
    return v - BIG_STANDIN + (1 << BIG_EXP[tag])

def enc_vli(v, cls="ok", variant=0):
    """VLI encoding of v: minimal | "nonmin" (SAME value, continuation bit added, 0x00 appended) | "over9" (nine continuation bytes)"""
    if cls == "over9":
        low = [0x80, 0xFF, 0x81, 0xA5][variant % 4]
        return bytes([low] + [[0x80, 0xFF, 0x80, 0x81][variant % 4]] * 8)
    e = gvli.encode(v)
    if cls == "nonmin":
        return e[:-1] + bytes([e[-1] | 0x80, 0x00])
    return e

def filter_props(f, k, rng_val):
    fid, plen, pok = f['id'], f['plen'], f['pok']
    if fid == 'lzma2':
        if plen == 1:
            return bytes([0 if pok else rng_val.choice([41, 0x40, 0x80, 0xFF])])     # 4 KiB dictionary | reserved/too big
        return bytes([0] * plen)
    if fid == 'delta':
        return bytes([(k * 7 + 1) % 256][:1] * plen) if plen else b""
    if fid in BCJ_ALIGN:
        if plen == 4:
            a = BCJ_ALIGN[fid]
            off = 0x1000 * (k + 1) if pok else 0x1000 * (k + 1) + (a // 2 or 1)
            return struct.pack("<I", off)
        return bytes(plen)
    return bytes(plen)

INSN = {  # a convertible branch/call instruction per BCJ architecture (plain, before the encoder's conversion) and its alignment
    4: (bytes([0xE8, 0x10, 0x00, 0x00, 0x00]), 1),      # x86 CALL rel32
    5: (bytes([0x48, 0x00, 0x01, 0x01]), 4),            # PowerPC bl
    7: (bytes([0x10, 0x00, 0x00, 0xEB]), 4),            # ARM BL
    8: (bytes([0x10, 0xF0, 0x20, 0xF8]), 2),            # ARM-Thumb BL
    9: (bytes([0x40, 0x00, 0x01, 0x00]), 4),            # SPARC call
    10: (bytes([0x10, 0x00, 0x00, 0x94]), 4),           # ARM64 BL
}

def bcj_tail_plain(n, fid, t, rng):
    """n bytes of plain data with one convertible instruction of architecture `fid` ending t bytes before the end
    (moved down to the architecture's alignment)."""
    insn, align = INSN[fid]
    buf = bytearray(rng.randrange(256) for _ in range(n))
    p = n - t - len(insn)
    p -= p % align
    if p >= 0:
        buf[p:p + len(insn)] = insn
    return bytes(buf)

def unc_only(entry):
    return all(c['k'] in ('unc', 'end') for c in entry['chunks']) and any(c['k'] == 'unc' for c in entry['chunks'])

def rebuild_unc(entry, content):
    """the LZMA2 data of an all-uncompressed catalogue entry with other content of the same length"""
    out = bytearray(); pos = 0
    for c in entry['chunks']:
        if c['k'] == 'end':
            out.append(0)
        else:
            out += bytes([1 if c['reset'] == 'dict' else 2, ((c['n'] - 1) >> 8) & 0xFF, (c['n'] - 1) & 0xFF]) + content[pos:pos + c['n']]
            pos += c['n']
    return bytes(out)

def encode_filters(filters, data):
    """Apply the non-last filters in the ENCODING direction with glue (last filter is LZMA2 -> caller)."""
    for fid, props in filters[:-1]:
        data = gflt.apply_nonlast(fid, props, data, True)
    return data

def concretise_file(af, cat, rng=None, variant=0):
    """abstract file (XzFile.tla JSON) -> (bytes, fieldmap, outputs-by-block [(s, b) -> bytes])"""
    rng = rng or random.Random(1)
    bycat = {e['did']: e for e in cat}
    streams = []
    meaning = []
    for s in af['streams']:
        check = s['check']
        blocks = []
        for bi, b in enumerate(s['blocks']):
            e = bycat[b['did']]
            flt = []
            for k, f in enumerate(b['filters']):
                fd = dict(id=FILTER_ID[f['id']], props=filter_props(f, k, rng))
                if f.get('idv', 'ok') != 'ok':
                    fd['id_bytes'] = enc_vli(fd['id'], f['idv'], variant)
                if f.get('psv', 'ok') != 'ok':
                    fd['props_size_bytes'] = enc_vli(len(fd['props']), f['psv'], variant)
                flt.append(fd)
            # the catalogue data is the LZMA2 encoding of e['out'] *as seen by LZMA2*; with non-last filters the Block's
            # meaning is the DEcoding of that through the filters (decoding direction is total for delta/BCJ)
            raw = e['out']
            plain = raw
            try:
                for f in reversed(flt[:-1]):
                    if gflt.implemented(f['id']) and (f['id'] == 3 and len(f['props']) == 1 or f['id'] != 3 and len(f['props']) in (0, 4)):
                        plain = gflt.apply_nonlast(f['id'], f['props'], plain, False)
            except Exception:
                plain = raw
            data_bytes = e['data']
            bcjs = [f['id'] for f in flt[:-1] if f['id'] in INSN and len(f['props']) in (0, 4)]
            if unc_only(e) and bcjs and all(gflt.implemented(f['id']) or f['id'] == 3 for f in flt[:-1]) and all(
                    (f['id'] == 3 and len(f['props']) == 1) or (f['id'] != 3 and len(f['props']) in (0, 4)) for f in flt[:-1]):
                # plain bytes: the meaning of the Block is CHOSEN (a convertible instruction near the end of the data),
                # the stored bytes are its encoding through the chain
                want = bcj_tail_plain(len(raw), bcjs[(variant + bi) % len(bcjs)], ((variant + bi) // max(1, len(bcjs))) % 9, rng)
                enc = want
                for f in flt[:-1]:
                    enc = gflt.apply_nonlast(f['id'], f['props'], enc, True)
                plain = enc
                for f in reversed(flt[:-1]):
                    plain = gflt.apply_nonlast(f['id'], f['props'], plain, False)
                data_bytes = rebuild_unc(e, enc)
            blk = dict(filters=flt, data=data_bytes, uncompressed=plain)
            if b['cs']['p']:
                if b['cs']['vli']:
                    blk['compressed_size'] = real_value(b['cs']['v'], b['cs'].get('big', ''))
                else:
                    blk['compressed_size_bytes'] = enc_vli(b['cs']['v'], b['cs'].get('vc', 'nonmin'), variant)
            if b['us']['p']:
                if b['us']['vli']:
                    blk['uncompressed_size'] = real_value(b['us']['v'], b['us'].get('big', ''))
                else:
                    blk['uncompressed_size_bytes'] = enc_vli(b['us']['v'], b['us'].get('vc', 'nonmin'), variant)
            blk['header_padding'] = b['hpad'] if (b['hpadz'] or b['hpad'] == 0) else (b"\x00" * (b['hpad'] - 1) + b"\x01")
            hdr = gxz.build_block_header(dict(blk, header_size=None))
            real = len(hdr)
            if b['resv']:
                blk['flags'] = hdr[1] | [0x04, 0x08, 0x10, 0x20][(variant + bi) % 4]
            if not b['fits']:
                # the first filter's Size of Properties points past the end of the header (CRC32 valid)
                blk['filters'] = [dict(flt[0], props_size=100)] + flt[1:]
            if b['hsz'] != real:
                blk['header_size_byte'] = (b['hsz'] // 4 - 1) & 0xFF
            if not b['hcrc']:
                h2 = gxz.build_block_header(blk)
                blk['header_crc32'] = struct.unpack("<I", h2[-4:])[0] ^ (1 << rng.randrange(32))
            padn = (-len(data_bytes)) % 4
            blk['padding'] = bytes(padn) if (b['bpadz'] or padn == 0) else (bytes(padn - 1) + b"\x80")
            good = gcrc.check_bytes(check, plain)
            if not b['chk'] and good:
                bad = bytearray(good); bad[rng.randrange(len(bad))] ^= 1 << rng.randrange(8)
                blk['check'] = bytes(bad)
            else:
                blk['check'] = good
            blocks.append(blk)
            meaning.append(plain)
        st = dict(check=check, blocks=blocks, padding=s['pad'])
        h = {}
        if not s['hmagic']:
            h['magic'] = b"\xFD7zXY\x00"
        if not s['hvers']:
            h['flags'] = rng.choice([bytes([1, check]), bytes([0, check | 0x10]), bytes([0x80, check])])
        if not s['hcrc']:
            fl = h.get('flags', bytes([0, check]))
            h['crc32'] = gcrc.crc32(fl) ^ (1 << rng.randrange(32))
        if h:
            st['header'] = h
        # the VLIs of the Index, position 1 = Number of Records, 2k / 2k+1 = sizes of Record k; one of them may be malformed
        def ivcls(pos):
            return s.get('ivcls', 'nonmin') if (not s['ivli'] and s.get('ivpos', 1) == pos) else "ok"
        cnt = real_value(s['icount'], s.get('icb', ''))
        recs = [(real_value(r['u'], r.get('ub', '')), real_value(r['n'], r.get('nb', ''))) for r in s['irecs']]
        ix = dict(count=cnt, records=recs)
        ix['count_bytes'] = enc_vli(cnt, ivcls(1), variant)
        ix['record_bytes'] = [(enc_vli(u, ivcls(2 * k + 2), variant), enc_vli(n_, ivcls(2 * k + 3), variant)) for k, (u, n_) in enumerate(recs)]
        # Index Padding as the decoders compute it: from the minimal encodings of the values (XzFile.tla IndexPad)
        body = 1 + len(gvli.encode(cnt)) + sum(len(gvli.encode(u)) + len(gvli.encode(n_)) for u, n_ in recs)
        padn = (-body) % 4
        ix['padding'] = bytes(padn)
        if not s['ipadz'] and padn:
            ix['padding'] = bytes(padn - 1) + b"\x01"
        st['index'] = ix
        if s.get('fbb', ''):
            # stored Backward Size = true stored value + k * 2^30 (the real size exceeds the true one by k * 2^32)
            ft = dict(backward_size=(((s['fbs'] - BIG_STANDIN) // 4 - 1) + (int(s['fbb'][1]) << 30)) & 0xFFFFFFFF)
        else:
            ft = dict(backward_size=(s['fbs'] // 4 - 1) & 0xFFFFFFFF)
        ffl = bytes([0, s['fcheck']])
        if not s['fvers']:
            ffl = rng.choice([bytes([2, s['fcheck']]), bytes([0, s['fcheck'] | 0x80])])
        ft['flags'] = ffl
        if not s['fmagic']:
            ft['magic'] = b"YY"
        st['footer'] = ft
        streams.append(st)
    data, fmap = gxz.build(streams)
    data = bytearray(data)
    # CRC faults that must be applied on the final bytes
    names = {nm: (o, l) for nm, o, l in fmap}
    for si, s in enumerate(af['streams']):
        if not s['icrc']:
            o, l = names["s%d.index.crc32" % si]
            data[o + rng.randrange(4)] ^= 1 << rng.randrange(8)
        if not s['fcrc']:
            o, l = names["s%d.footer.crc32" % si]
            data[o + rng.randrange(4)] ^= 1 << rng.randrange(8)
    return bytes(data), fmap, meaning

# ------------------------------------------------------------------------------------------ drivers
def ensure_loaded(so):
    if lz.L() is None:
        lz.load(so)
    return lz.L()

def decode_stream(data, flags=lz.CONCATENATED, memlimit=lz.UINT64_MAX, slices=None, mt=0, out_cap=None, out_slice=None):
    """lzma_stream_decoder (or _mt with `mt` threads) through lzma_code: returns (retname, out, tells, total_in)."""
    c = lz.Coder()
    if mt:
        m = lz.Mt(); m.flags = flags; m.threads = mt; m.memlimit_threading = min(memlimit, 1 << 26); m.memlimit_stop = memlimit; m.timeout = 0     # finite threading limit: Blocks that claim huge sizes are decoded in direct mode instead of being allocated for
        r = c.init("lzma_stream_decoder_mt", C.byref(m))
    else:
        r = c.init("lzma_stream_decoder", memlimit, flags)
    if r != lz.OK:
        c.end()
        return "INIT_" + lz.retname(r), b"", [], 0
    res = drive(c, data, slices, out_cap, out_slice)
    c.end()
    return res

def drive(c, data, slices=None, out_cap=None, out_slice=None):
    """Feed `data` (one shot, or in the given slice sizes) with LZMA_FINISH on the last piece; collects the
    LZMA_NO_CHECK / UNSUPPORTED_CHECK / GET_CHECK returns and continues.  out_slice: output space granted per call."""
    s = c.strm
    n = len(data)
    ib = lz.Buf(n, data)
    cap = out_cap if out_cap is not None else 1 << 16
    ob = lz.Buf(cap)
    ip = 0; op = 0
    tells = []
    it = iter(slices) if slices is not None else iter(())
    idle = 0
    final = None
    for _ in range(400000):
        pend = s.avail_in if _ else 0
        try:
            k = next(it)
        except StopIteration:
            k = n - ip - pend
        k = max(0, min(k, n - ip - pend))
        s.next_in = ib.addr + ip; s.avail_in = pend + k
        s.next_out = ob.addr + op; s.avail_out = (cap - op) if out_slice is None else min(out_slice, cap - op)
        last = (ip + s.avail_in == n)
        b_in, b_out = s.avail_in, s.avail_out
        r = c.code_raw(lz.FINISH if last else lz.RUN)
        ui = b_in - s.avail_in; uo = b_out - s.avail_out
        ip += ui; op += uo
        if r in (lz.NO_CHECK, lz.UNSUPPORTED_CHECK, lz.GET_CHECK):
            tells.append(lz.retname(r)); continue
        if r == lz.OK:
            if last and ui == 0 and uo == 0:
                idle += 1
                if idle > 3:
                    final = "STUCK_OK"; break
            continue
        final = lz.retname(r)
        break
    if final is None:
        final = "STUCK"
    ok = ib.guards_ok() and ob.guards_ok()
    return final if ok else final + "+GUARD", ob.data(op), tells, s.total_in

def buffer_decode(data, flags=lz.CONCATENATED, out_cap=1 << 16):
    L = lz.L()
    ml = C.c_uint64(lz.UINT64_MAX)
    ib = lz.Buf(len(data), data); ob = lz.Buf(out_cap)
    ip = C.c_size_t(0); op = C.c_size_t(0)
    r = L.lzma_stream_buffer_decode(C.byref(ml), flags, None, ib.addr, C.byref(ip), len(data), ob.addr, C.byref(op), out_cap)
    return lz.retname(r), ob.data(op.value), ip.value

def raw_decode(filters, data, slices=None, out_cap=1 << 16, out_slice=None):
    """lzma_raw_decoder with `filters` = [(id, options struct or None)]; returns (retname, out, tells, total_in)."""
    c = lz.Coder()
    arr = lz.make_filters(filters)
    r = c.init("lzma_raw_decoder", arr)
    if r != lz.OK:
        c.end()
        return "INIT_" + lz.retname(r), b"", [], 0
    res = drive(c, data, slices, out_cap, out_slice)
    c.end()
    return res

def block_decode(header, rest, check, slices=None, out_cap=1 << 16, ignore_check=False, out_slice=None):
    """lzma_block_header_decode + lzma_block_decoder on header bytes + (data, padding, check).
    The lzma_block lives in NON-ZEROED memory (0xA5): only the members block.h tells the caller to set before
    lzma_block_header_decode() are written (version, check, header_size, filters); everything else is the decoder's job."""
    L = lz.L()
    blk = lz.Block()
    C.memset(C.byref(blk), 0xA5, C.sizeof(blk))
    flt = (lz.Filter * 5)()
    C.memset(flt, 0xA5, C.sizeof(flt))
    blk.version = 1
    blk.check = check
    blk.header_size = (header[0] + 1) * 4
    blk.filters = C.cast(flt, C.POINTER(lz.Filter))
    hb = lz.Buf(len(header), header)
    r = L.lzma_block_header_decode(C.byref(blk), None, hb.addr)
    if r != lz.OK:
        return "HDR_" + lz.retname(r), b"", [], 0
    if ignore_check:
        blk.ignore_check = 1          # the application's choice, made after the header was decoded
    c = lz.Coder()
    r = c.init("lzma_block_decoder", C.byref(blk))
    if r != lz.OK:
        c.end()
        L.lzma_filters_free(C.cast(flt, C.POINTER(lz.Filter)), None)
        return "INIT_" + lz.retname(r), b"", [], 0
    res = drive(c, rest, slices, out_cap, out_slice)
    c.end()
    L.lzma_filters_free(C.cast(flt, C.POINTER(lz.Filter)), None)
    return res

def index_decode(data, bytewise=False):
    """the Index field alone: lzma_index_buffer_decode, or lzma_index_decoder fed byte by byte.  Returns the return code name
    (OK and STREAM_END both mean accepted -> "OK")."""
    L = lz.L()
    ib = lz.Buf(len(data), data)
    if not bytewise:
        idx = C.c_void_p(None); ml = C.c_uint64(lz.UINT64_MAX); ip = C.c_size_t(0)
        r = L.lzma_index_buffer_decode(C.byref(idx), C.byref(ml), None, ib.addr, C.byref(ip), len(data))
        if idx.value:
            L.lzma_index_end(idx, None)
        return lz.retname(r), ip.value
    c = lz.Coder()
    idx = C.c_void_p(None)
    r = c.init("lzma_index_decoder", C.byref(idx), lz.UINT64_MAX)
    if r != lz.OK:
        c.end(); return "INIT_" + lz.retname(r), 0
    ret, _, _, tin = drive(c, data, slices=[1] * len(data), out_cap=16)
    c.end()
    if idx.value:
        L.lzma_index_end(idx, None)
    return ("OK" if ret == "STREAM_END" else ret), tin

def vli_decode_calls(data, pieces):
    """lzma_vli_decode over `data`: pieces=None -> single-call mode (vli_pos = NULL) on the whole buffer; otherwise multi-call
    mode fed in the given piece sizes.  Returns (retname of the last call, bytes consumed, value)."""
    L = lz.L()
    ib = lz.Buf(max(1, len(data)), data)
    v = C.c_uint64(0); ip = C.c_size_t(0)
    if pieces is None:
        r = L.lzma_vli_decode(C.byref(v), None, ib.addr, C.byref(ip), len(data))
        return lz.retname(r), ip.value, v.value
    vp = C.c_size_t(0)
    end = 0; r = lz.OK
    for k in pieces:
        end = min(len(data), end + k)
        if ip.value >= end:
            continue
        r = L.lzma_vli_decode(C.byref(v), C.byref(vp), ib.addr, C.byref(ip), end)
        if r != lz.OK:
            break
    return lz.retname(r), ip.value, v.value

def lzma1_opts(dict_size=4096, lc=3, lp=0, pb=2):
    return lz.lzma_opts(dict_size=dict_size, lc=lc, lp=lp, pb=pb)


_PROBE = r"""
import sys, ctypes as C
sys.path.insert(0, %r)
from harness.pydrv import lz, c03drv as D
from harness.glue import xz as gxz
D.ensure_loaded(%r)
data = gxz.encode(b"hello, truncated world" * 3, check=1)[:-7]
r = D.buffer_decode(data, lz.CONCATENATED)
print("RET", r[0])
"""

def probe_buffer_decode_truncated(so, verif_root):
    """lzma_stream_buffer_decode on a truncated file, in a child process (an assertion failure must not kill the check).
    Returns ('ret', name) or ('abort', stderr tail)."""
    import subprocess, sys
    from lib import build
    e = build.asan_env()
    p = subprocess.run([sys.executable, "-c", _PROBE % (verif_root, so)], env=e, stdout=subprocess.PIPE, stderr=subprocess.STDOUT,
                       text=True, timeout=120)
    for line in p.stdout.splitlines():
        if line.startswith("RET "):
            return ('ret', line.split()[1])
    return ('abort', p.stdout[-600:])
