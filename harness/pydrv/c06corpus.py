"""C06 / C04 corpus: subjects (entry point + arguments + input + field boundaries) generated with the independent
format library harness/glue (valid files of every kind incl. features liblzma's encoder never emits, single-rule
violations, bit flips, truncations) plus the repository's tests/files and outputs of the real encoders.

A subject: dict(entry, args, data (bytes), cls, bounds [offsets], exempt (rejected-behind-BCJ rule may apply),
cap (output capacity for the one-shot run), kind 'dec'|'enc').
"""
import os, struct, random

from harness.glue import xz as GX, alone as GA, lzip as GZ, lzma as GL, lzma2 as G2, vli, crc, filters as GF
from harness.glue import selftest as GS
from . import lz

REPO = os.environ.get("VERIF_REPO", "/repo")
MODES = {"fast": lz.MODE_FAST, "normal": lz.MODE_NORMAL}
MFS = {"hc3": lz.MF_HC3, "hc4": lz.MF_HC4, "bt2": lz.MF_BT2, "bt3": lz.MF_BT3, "bt4": lz.MF_BT4}
BCJ_IDS = {4: "x86", 5: "powerpc", 6: "ia64", 7: "arm", 8: "armthumb", 9: "sparc", 10: "arm64", 11: "riscv"}


def text(rng, n):
    words = [b"alpha", b"beta", b"gamma", b"delta ", b"\n", b"xz", b"lzma", b"0123456789", b"the ", b"of "]
    out = bytearray()
    while len(out) < n:
        out += rng.choice(words)
    return bytes(out[:n])


def payload_data(rng, n, kind=None):
    kind = kind or rng.choice(["text", "rand", "zeros", "code"])
    if kind == "text":
        return text(rng, n)
    if kind == "rand":
        return bytes(rng.getrandbits(8) for _ in range(n))
    if kind == "zeros":
        return bytes(n)
    return GS.sample_code_like(rng, n)


def sub(entry, data, cls, args=None, bounds=None, exempt=False, cap=None, kind="dec"):
    n = len(data)
    b = sorted(set(x for x in (bounds or []) if 0 < x < n))
    return dict(entry=entry, args=args or {}, data=bytes(data), cls=cls, bounds=b, exempt=exempt,
                cap=cap, kind=kind)


def fmap_bounds(fmap):
    out = set()
    for nm, o, l in fmap:
        out.add(o); out.add(o + l)
    return sorted(out)


def small_random_xz(rng, limit=6000):
    for _ in range(50):
        desc, want = GS.random_xz(rng)
        if len(want) <= limit:
            f, fmap = GX.build(desc)
            if len(f) <= 4096:
                return desc, want, f, fmap
    desc = [dict(check=1, blocks=[dict(uncompressed=text(rng, 200), dict_size=1 << 16)])]
    f, fmap = GX.build(desc)
    return desc, text(rng, 0), f, fmap


def has_bcj(desc):
    for s in desc:
        for b in s.get('blocks') or []:
            for f in b.get('filters') or []:
                fid = f['id'] if isinstance(f, dict) else f[0]
                if fid in BCJ_IDS:
                    return True
    return False


# ------------------------------------------------------------------------------------------------ .xz
def xz_feature_files(rng):
    """(cls, desc) valid files exercising features of the format (many never produced by liblzma's encoder)."""
    t = text(rng, 700)
    code = GS.sample_code_like(rng, 900)
    out = []
    out.append(("xz:plain", [dict(check=1, blocks=[dict(uncompressed=t[:300], dict_size=1 << 16)])]))
    out.append(("xz:multi", [
        dict(check=4, blocks=[dict(uncompressed=t[:100], dict_size=4096, compressed_size='auto', uncompressed_size='auto'),
                              dict(uncompressed=b"", dict_size=4096),
                              dict(uncompressed=t[100:400], dict_size=1 << 16, header_padding=8, uncompressed_size='auto')],
             padding=8),
        dict(check=10, blocks=[dict(uncompressed=bytes(500), dict_size=4096, compressed_size='auto')], padding=4),
        dict(check=0, blocks=[])]))
    out.append(("xz:delta", [dict(check=1, blocks=[dict(uncompressed=t[:400], filters=[(3, b"\x03"), (0x21, b"\x04")])])]))
    for fid in (4, 5, 7, 8, 9, 10):
        out.append(("xz:bcj:" + BCJ_IDS[fid], [dict(check=4, blocks=[
            dict(uncompressed=code[:600], filters=[(fid, b""), (0x21, b"\x06")]),
            dict(uncompressed=code[600:], filters=[(3, b"\x00"), (fid, struct.pack("<I", 16 * 64)), (0x21, b"\x06")],
                 uncompressed_size='auto')])]))
    out.append(("xz:unsupported_check", [dict(check=2, blocks=[dict(uncompressed=t[:120], dict_size=4096)])]))
    out.append(("xz:check15", [dict(check=15, blocks=[dict(uncompressed=t[:50], dict_size=4096, check=bytes(64))])]))
    out.append(("xz:empty_streams", [dict(check=1, blocks=[], padding=4), dict(check=4, blocks=[]),
                                     dict(check=1, blocks=[dict(uncompressed=b"x", dict_size=4096)], padding=12)]))
    # (LZMA2 dictionary size byte 40 = 4 GiB - 1 is valid but each run would allocate 4 GiB under ASan: left to C03)
    return out


def xz_subjects(rng, quick, n_random, n_mut):
    S = []
    CONC = lz.CONCATENATED

    def add_all(cls, f, fmap, want_len, desc=None, valid=True):
        b = fmap_bounds(fmap) if fmap else []
        ex = bool(desc) and has_bcj(desc)
        cap = want_len + 4096
        S.append(sub("stream_decoder", f, cls, dict(flags=CONC), b, ex, cap))
        pick = rng.random()
        if pick < 0.5 or not quick:
            S.append(sub("stream_decoder_mt", f, cls, dict(flags=CONC, threads=2), b, ex, cap))
        if pick > 0.7 or not quick:
            S.append(sub("auto_decoder", f, cls, dict(flags=CONC | lz.TELL_ANY_CHECK), b, ex, cap))
        if (0.3 < pick < 0.8 or not quick):
            S.append(sub("file_info_decoder", f, cls, {}, b, False, 4096))
        if not quick or pick < 0.25:
            S.append(sub("stream_decoder", f, cls + ":noconcat", dict(flags=lz.TELL_UNSUPPORTED_CHECK | lz.TELL_NO_CHECK), b, ex, cap))

    for cls, desc in xz_feature_files(rng):
        f, fmap = GX.build(desc)
        want = sum(len(b.get('uncompressed') or b"") for s in desc for b in s.get('blocks') or [])
        add_all("valid:" + cls, f, fmap, want, desc)
    for i in range(n_random):
        desc, want, f, fmap = small_random_xz(rng)
        add_all("valid:xz:random", f, fmap, len(want), desc)
    # single-rule violations (glue overrides)
    faults = GS.crafted_xz_faults(rng)
    if quick:
        faults = [faults[0]] + rng.sample(faults[1:], 16)
    for name, desc, verdict in faults:
        f, fmap = GX.build(desc)
        b = fmap_bounds(fmap)
        cls = ("valid:" if verdict == 'ok' else "invalid:") + "xz:" + name
        S.append(sub("stream_decoder", f, cls, dict(flags=CONC), b, False, 4200))
        r = rng.random()
        if r < 0.35 or not quick:
            S.append(sub("stream_decoder_mt", f, cls, dict(flags=CONC, threads=2), b, False, 4200))
        if r > 0.6 or not quick:
            S.append(sub("file_info_decoder", f, cls, {}, b, False, 4096))
    # random corruption (bit flips / byte stomps in a random field) and truncation of random valid files
    for i in range(n_mut):
        desc, want, f, fmap = small_random_xz(rng, 3000)
        m = GS.mutate(rng, f, fmap)
        ex = has_bcj(desc)
        S.append(sub(rng.choice(["stream_decoder", "stream_decoder", "stream_decoder_mt", "auto_decoder", "file_info_decoder"]),
                     m, "mutated:xz", dict(flags=CONC, threads=2), fmap_bounds(fmap), ex, len(want) + 4096))
    return S


def tests_files(rng, quick):
    S = []
    d = os.path.join(REPO, "tests", "files")
    names = sorted(os.listdir(d))
    picks = []
    for nm in names:
        p = os.path.join(d, nm)
        if not os.path.isfile(p) or os.path.getsize(p) > (4096 if quick else 70000):
            continue
        if nm.endswith((".xz", ".lzma", ".lz")):
            picks.append(nm)
    if quick:
        must = [x for x in picks if x in ("good-known_size-with_eopm.lzma", "good-1-block_header-2.xz", "good-1-v1.lz")]
        rest = [x for x in picks if x not in must]
        picks = must + rng.sample(rest, min(15, len(rest)))
    for nm in picks:
        data = open(os.path.join(d, nm), "rb").read()
        cls = "testfile:" + nm
        n = len(data)
        if nm.endswith(".xz"):
            try:
                b = [o for _, o, l, _ in GX.parse(data).events] + [o + l for _, o, l, _ in GX.parse(data).events]
            except Exception:
                b = []
            ex = "x86" in nm or "arm64" in nm or "riscv" in nm or "sparc" in nm or "-3delta" in nm and False
            ex = ex or any(t in nm for t in ("bcj", "x86", "arm", "powerpc", "ia64", "sparc", "riscv"))
            S.append(sub("stream_decoder", data, cls, dict(flags=lz.CONCATENATED), b, ex, 1 << 20))
            if not quick or rng.random() < 0.4:
                S.append(sub("stream_decoder_mt", data, cls, dict(flags=lz.CONCATENATED, threads=2), b, ex, 1 << 20))
            if not quick or rng.random() < 0.3:
                S.append(sub("file_info_decoder", data, cls, {}, b, False, 4096))
        elif nm.endswith(".lzma"):
            b = [1, 5, 13, 18, n - 6, n - 5, n - 2, n - 1]
            S.append(sub("alone_decoder", data, cls, {}, b, False, 1 << 20))
            S.append(sub("auto_decoder", data, cls, dict(flags=0), b, False, 1 << 20))
        else:
            b = [4, 5, 6, 11, n - 20, n - 16, n - 8, n - 21]
            S.append(sub("lzip_decoder", data, cls, dict(flags=lz.CONCATENATED), b, False, 1 << 20))
            if not quick or rng.random() < 0.5:
                S.append(sub("auto_decoder", data, cls, dict(flags=lz.CONCATENATED), b, False, 1 << 20))
    return S


# ------------------------------------------------------------------------------------------------ .lzma / raw LZMA1 / MicroLZMA
def lzma1_subjects(rng, quick, n):
    S = []
    combos = [(3, 0, 2), (0, 0, 0), (4, 0, 0), (0, 4, 4), (1, 2, 3), (2, 2, 0)]
    for i in range(n):
        lc, lp, pb = combos[i % len(combos)] if i < len(combos) else rng.choice(GS.combos())
        ds = rng.choice([4096, 1 << 16])
        syms, outlen, _ = GL.random_symbols(rng, rng.choice([3, 20, 120]), ds, max_out=3000)
        pay_noeopm = GL.encode_symbols(syms, lc, lp, pb)
        pay_eopm = GL.encode_symbols(list(syms) + [('eopm',)], lc, lp, pb)
        eb = [len(pay_noeopm) - 6 + k for k in range(0, 12)]       # the region of the marker
        # .lzma: the three size/marker forms
        for form, kw in (("known_size+eopm", dict(usize='auto', eopm=True)), ("known_size", dict(usize='auto', eopm=False)),
                         ("unknown_size+eopm", dict(usize=None))):
            f = GA.build(symbols=syms, lc=lc, lp=lp, pb=pb, dict_size=ds, **kw)
            b = [1, 5, 13, 14, 15, 16, 17, 18] + [13 + x for x in eb] + [len(f) - 1]
            S.append(sub("alone_decoder", f, "valid:lzma:" + form, {}, b, False, outlen + 4096))
            if i % 3 == 0:
                S.append(sub("auto_decoder", f, "valid:lzma:" + form, dict(flags=0), b, False, outlen + 4096))
        # raw LZMA1 (marker required) and LZMA1EXT (known size, marker allowed or not)
        fl = [["lzma1", dict(dict_size=ds, lc=lc, lp=lp, pb=pb)]]
        S.append(sub("raw_decoder", pay_eopm, "valid:raw_lzma1", dict(filters=fl), [1, 2, 3, 4, 5] + eb, False, outlen + 4096))
        for allow in (0, 1):
            for pay, nm in ((pay_eopm, "eopm"), (pay_noeopm, "noeopm")):
                fe = [["lzma1ext", dict(dict_size=ds, lc=lc, lp=lp, pb=pb, usize=outlen, ext_flags=allow)]]
                valid = nm == "noeopm" or allow
                S.append(sub("raw_decoder", pay, "%s:raw_lzma1ext:allow%d:%s" % ("valid" if valid else "invalid", allow, nm),
                             dict(filters=fe), eb, False, outlen + 4096))
        # invalid .lzma
        bad = []
        rcbad = []
        if outlen > 2:
            bad.append(("size_too_small", GA.build(symbols=syms, lc=lc, lp=lp, pb=pb, dict_size=ds, usize=outlen - 1, eopm=True)))
            bad.append(("size_too_big+eopm", GA.build(symbols=syms, lc=lc, lp=lp, pb=pb, dict_size=ds, usize=outlen + 2, eopm=True)))
            bad.append(("size_too_big", GA.build(symbols=syms, lc=lc, lp=lp, pb=pb, dict_size=ds, usize=outlen + 2, eopm=False)))
        bad.append(("props", GA.build(symbols=syms, lc=lc, lp=lp, pb=pb, dict_size=ds, props=225)))
        bad.append(("dist", GA.build(symbols=[('lit', 1), ('match', 5, 4), ('lit', 2)], dict_size=ds)))
        good = GA.build(symbols=syms, lc=lc, lp=lp, pb=pb, dict_size=ds, usize='auto', eopm=True)
        # range coder initialisation: the first of its five bytes must be 0x00
        for form, kw in (("known_size+eopm", dict(usize='auto', eopm=True)), ("unknown_size+eopm", dict(usize=None))):
            g = bytearray(GA.build(symbols=syms, lc=lc, lp=lp, pb=pb, dict_size=ds, **kw))
            g[13] = rng.choice((1, 0x80, 0xFF))
            rcbad.append(("alone_decoder", bytes(g), "invalid:lzma:rc_init_nonzero", {}, [13, 14, 15, 16, 17, 18]))
        g = bytearray(pay_eopm); g[0] = rng.choice((1, 0x40, 0xFF))
        rcbad.append(("raw_decoder", bytes(g), "invalid:raw_lzma1:rc_init_nonzero", dict(filters=fl), [1, 2, 3, 4, 5]))
        bad.append(("garbage_after", good + b"\x00\x01garbage"))
        flipped = bytearray(good); flipped[-1] ^= 0x40
        bad.append(("last_byte", bytes(flipped)))
        for k in sorted(set([0, 1, 12, 13, 17, 18, len(good) - 7, len(good) - 3, len(good) - 1])):
            if 0 <= k < len(good):
                bad.append(("truncated", good[:k]))
        for _ in range(2 if quick else 8):
            bad.append(("mutated", GS.mutate(rng, good, [("h", 0, 13), ("p", 13, len(good) - 13)])))
        if quick:
            bad = rng.sample(bad, min(7, len(bad)))
        for nm, f in bad:
            b = [1, 5, 13, 14, 15, 16, 17, 18, len(f) - 6, len(f) - 2, len(f) - 1]
            S.append(sub("alone_decoder", f, "invalid:lzma:" + nm, {}, b, False, outlen + 4096))
        for entry, f, cls, a, b in rcbad:
            S.append(sub(entry, f, cls, a, b, False, outlen + 4096))
    return S


def microlzma_subjects(rng, quick, n):
    """MicroLZMA streams come from the real encoder (the format is liblzma's own)."""
    import ctypes as C
    S = []
    for i in range(n):
        d = payload_data(rng, rng.choice([1, 40, 900]))
        o = lz.lzma_opts(0, dict_size=4096, lc=rng.choice([0, 3]), lp=0, pb=rng.choice([0, 2]))
        e = lz.Coder()
        if e.init("lzma_microlzma_encoder", C.byref(o)) != lz.OK:
            continue
        res = lz.run_coder(e, d, out_cap=len(d) * 2 + 200)
        e.end()
        if res["ret"] != lz.STREAM_END:
            continue
        comp = res["out"]; used = res["total_in"]
        a = dict(comp_size=len(comp), uncomp_size=used, exact=1, dict_size=4096)
        b = [1, 2, 5, len(comp) - 1]
        S.append(sub("microlzma_decoder", comp, "valid:microlzma", a, b, False, used + 4096))
        S.append(sub("microlzma_decoder", comp, "valid:microlzma:inexact", dict(a, exact=0, uncomp_size=max(0, used - 1)), b, False, used + 4096))
        S.append(sub("microlzma_decoder", comp, "invalid:microlzma:usize+1", dict(a, uncomp_size=used + 1), b, False, used + 4096))
        S.append(sub("microlzma_decoder", comp[:-1], "invalid:microlzma:truncated", a, b, False, used + 4096))
        m = bytearray(comp); m[rng.randrange(len(m))] ^= 1 << rng.randrange(8)
        S.append(sub("microlzma_decoder", bytes(m), "mutated:microlzma", a, b, False, used + 4096))
    return S


# ------------------------------------------------------------------------------------------------ raw LZMA2 / delta / BCJ
def lzma2_subjects(rng, quick, n):
    S = []
    for i in range(n):
        ds = rng.choice([4096, 1 << 16])
        for _ in range(30):
            plan, want = GS.random_lzma2_plan(rng, ds, 4)
            if len(want) <= 5000:
                break
        chunks, _ = G2.encode_chunks(plan)
        f = G2.write_chunks(chunks)
        b = []
        for c in G2.parse_chunks(f):
            b += [c['offset'], c['offset'] + c.get('header_len', 1), c.get('payload_offset', c['offset'])]
        l2 = ["lzma2", dict(dict_size=ds)]
        rcb = []
        lz_chunks = [c for c in G2.parse_chunks(f) if c['kind'] == 'lzma']
        for c in lz_chunks:
            rcb += [c['payload_offset'] + k for k in range(0, 6)]
        b = b + rcb
        if lz_chunks:
            # first byte of the range coder initialisation of one LZMA chunk is not 0x00
            c = rng.choice(lz_chunks)
            g = bytearray(f); g[c['payload_offset']] = rng.choice((1, 0x80, 0xFF))
            S.append(sub("raw_decoder", bytes(g), "invalid:raw_lzma2:rc_init_nonzero", dict(filters=[l2]), b, False, len(want) + 4096))
            x, xmap = GX.build([dict(check=1, blocks=[dict(data=bytes(g), uncompressed=want, dict_size=ds)])])
            doff = [o for nm, o, l in xmap if nm.endswith("b0.data")][0]
            xb = fmap_bounds(xmap) + [doff + y for y in rcb]
            S.append(sub("stream_decoder", x, "invalid:xz:rc_init_nonzero", dict(flags=lz.CONCATENATED), xb, False, len(want) + 4096))
            S.append(sub("stream_decoder_mt", x, "invalid:xz:rc_init_nonzero", dict(flags=lz.CONCATENATED, threads=2), xb, False, len(want) + 4096))
        S.append(sub("raw_decoder", f, "valid:raw_lzma2", dict(filters=[l2]), b, False, len(want) + 4096))
        S.append(sub("raw_decoder", f, "valid:raw_delta+lzma2", dict(filters=[["delta", dict(dist=rng.choice([1, 2, 256]))], l2]),
                     b, False, len(want) + 4096))
        S.append(sub("raw_decoder", f[:rng.randrange(len(f))], "invalid:raw_lzma2:truncated", dict(filters=[l2]), b, False, len(want) + 4096))
        S.append(sub("raw_decoder", GS.mutate(rng, f, []), "mutated:raw_lzma2", dict(filters=[l2]), b, False, len(want) + 4096))
    # every BCJ filter in front of LZMA2, on code-like data (the decoder side converts whatever LZMA2 yields)
    for name in ("x86", "powerpc", "ia64", "arm", "armthumb", "sparc", "arm64", "riscv"):
        d = GS.sample_code_like(rng, rng.choice([37, 800, 2500]))
        f = G2.encode(d, dict_size=4096, chunk_usize=rng.choice([64, 700, 1 << 16]))
        b = []
        for c in G2.parse_chunks(f):
            b += [c['offset'], c.get('payload_offset', c['offset'])]
        fl = [[name, dict(start_offset=rng.choice([0, 0, 16 * 4]))], ["lzma2", dict(dict_size=4096)]]
        S.append(sub("raw_decoder", f, "valid:raw_bcj:" + name, dict(filters=fl), b, True, len(d) + 4096))
        S.append(sub("raw_decoder", f[:len(f) - rng.randrange(1, 9)], "invalid:raw_bcj:%s:truncated" % name, dict(filters=fl), b, True, len(d) + 4096))
        m = bytearray(f); m[rng.randrange(len(m) // 2, len(m))] ^= 0x10
        S.append(sub("raw_decoder", bytes(m), "mutated:raw_bcj:" + name, dict(filters=fl), b, True, len(d) + 4096))
    return S


# ------------------------------------------------------------------------------------------------ .lz
def lzip_subjects(rng, quick, n):
    S = []
    for i in range(n):
        syms, outlen, _ = GL.random_symbols(rng, rng.choice([2, 30, 150]), 1 << 16, max_out=3000)
        syms2, outlen2, _ = GL.random_symbols(rng, 10, 1 << 16, max_out=500)
        v = rng.choice([0, 1])
        m1 = dict(symbols=syms, version=v, dict_size=1 << 16)
        m2 = dict(symbols=syms2, version=1, dict_size=4096)
        one = GZ.build([m1])
        hl = 6
        tl = 20 if v == 1 else 12
        b = [4, 5, 6, 7, 8, 9, 10, 11, len(one) - tl - 6, len(one) - tl - 1, len(one) - tl, len(one) - tl + 4, len(one) - 8, len(one) - 1]
        rcz = bytearray(one); rcz[6] = rng.choice((1, 0x80, 0xFF))
        S.append(sub("lzip_decoder", bytes(rcz), "invalid:lz:rc_init_nonzero", dict(flags=lz.CONCATENATED), b, False, outlen + 4096))
        cases = [("valid:lz:one", one), ("valid:lz:two", GZ.build([m1, m2])), ("valid:lz:trailing", GZ.build([m1], trailing=b"LZ\x00junk")),
                 ("invalid:lz:crc", GZ.build([dict(m1, crc32=1)])), ("invalid:lz:data_size", GZ.build([dict(m1, data_size=outlen + 1)])),
                 ("invalid:lz:member_size", GZ.build([dict(m1, version=1, member_size=7)])),
                 ("invalid:lz:version", GZ.build([dict(m1, version_byte=2)])), ("invalid:lz:dict", GZ.build([dict(m1, ds_byte=0xFF)])),
                 ("invalid:lz:no_eos", GZ.build([dict(m1, eos=False)])), ("invalid:lz:magic2", GZ.build([m1]) + b"LZIP\x01"),
                 ("invalid:lz:truncated", one[:rng.randrange(len(one))]), ("invalid:lz:truncated_trailer", one[:len(one) - rng.randrange(1, tl)]),
                 ("mutated:lz", GS.mutate(rng, one, [("h", 0, 6), ("p", 6, len(one) - 6 - tl), ("t", len(one) - tl, tl)]))]
        if quick:
            cases = cases[:3] + rng.sample(cases[3:], 5)
        for cls, f in cases:
            fl = rng.choice([lz.CONCATENATED, lz.CONCATENATED | lz.TELL_ANY_CHECK, 0])
            S.append(sub("lzip_decoder", f, cls, dict(flags=fl), b, False, outlen + outlen2 + 4096))
            if rng.random() < 0.3:
                S.append(sub("auto_decoder", f, cls, dict(flags=lz.CONCATENATED), b, False, outlen + outlen2 + 4096))
    return S


# ------------------------------------------------------------------------------------------------ Block / Index
def block_index_subjects(rng, quick, n):
    S = []
    for i in range(n):
        for _ in range(20):
            desc, want, f, fmap = small_random_xz(rng, 3000)
            if any(s.get('blocks') for s in desc):
                break
        fm = {nm: (o, l) for nm, o, l in fmap}
        for si, s in enumerate(desc):
            for bi, blk in enumerate(s.get('blocks') or []):
                p = "s%d.b%d." % (si, bi)
                start = fm[p + "header.size"][0]
                end = fm[p + "check"][0] + fm[p + "check"][1]
                hl = fm[p + "header.crc32"][0] + 4 - start
                data = f[start:end]
                b = [o - start for nm, (o, l) in fm.items() if nm.startswith(p)]
                ex = has_bcj([dict(blocks=[blk])])
                a = dict(header_len=hl, check=s.get('check', 1))
                S.append(sub("block_decoder", data, "valid:block", a, b, ex, len(want) + 4096))
                S.append(sub("block_decoder", data[:len(data) - rng.randrange(1, 6)], "invalid:block:truncated", a, b, ex, len(want) + 4096))
                m = bytearray(data); k = rng.randrange(hl, len(m)); m[k] ^= 1 << rng.randrange(8)
                S.append(sub("block_decoder", bytes(m), "mutated:block", a, b, ex, len(want) + 4096))
            p = "s%d.index." % si
            start = fm[p + "indicator"][0]
            end = fm[p + "crc32"][0] + 4
            idx = f[start:end]
            b = [o - start for nm, (o, l) in fm.items() if nm.startswith(p)] + [o + l - start for nm, (o, l) in fm.items() if nm.startswith(p)]
            S.append(sub("index_decoder", idx, "valid:index", {}, b, False, 4096))
            S.append(sub("index_decoder", idx + b"tail", "valid:index:garbage_after", {}, b, False, 4096))
            S.append(sub("index_decoder", idx[:rng.randrange(len(idx))], "invalid:index:truncated", {}, b, False, 4096))
            S.append(sub("index_decoder", GS.mutate(rng, idx, []), "mutated:index", {}, b, False, 4096))
    # Index grammar corners
    def index_bytes(recs, count=None, pad=None, crc32=None, indicator=0, rb=None):
        body = bytes([indicator]) + vli.encode(len(recs) if count is None else count)
        for k, (u, c) in enumerate(recs):
            body += (rb[k][0] if rb and rb[k][0] else vli.encode(u)) + (rb[k][1] if rb and rb[k][1] else vli.encode(c))
        body += bytes((-len(body)) % 4) if pad is None else pad
        return body + struct.pack("<I", crc.crc32(body) if crc32 is None else crc32)
    corners = [("valid:index:empty", index_bytes([])), ("valid:index:big", index_bytes([(5 + k * 1000, k * 77777) for k in range(40)])),
               ("valid:index:max", index_bytes([((1 << 62), (1 << 62) + 5)])),
               ("invalid:index:sum_overflow", index_bytes([((1 << 63) - 4, 1), ((1 << 63) - 4, 1)])),
               ("invalid:index:unpadded_small", index_bytes([(4, 1)])), ("invalid:index:indicator", index_bytes([(8, 1)], indicator=1)),
               ("invalid:index:count_more", index_bytes([(8, 1)], count=2)), ("invalid:index:count_huge", index_bytes([(8, 1)], count=(1 << 63) - 1)),
               ("invalid:index:vli10", index_bytes([(8, 1)], rb=[(vli.encode_padded(8, 10), None)])),
               ("invalid:index:vli_nonminimal", index_bytes([(8, 1)], rb=[(None, vli.encode_padded(1, 2))])),
               ("invalid:index:padding", index_bytes([(8, 1)], pad=b"\x01")), ("invalid:index:crc", index_bytes([(8, 1)], crc32=3))]
    for cls, idx in corners:
        S.append(sub("index_decoder", idx, cls, {}, list(range(1, min(len(idx), 24))), False, 4096))
        S.append(sub("index_decoder", idx, cls + ":memlimit", dict(memlimit=1), [1, 2, 3], False, 4096))
    return S


# ------------------------------------------------------------------------------------------------ encoders
def encoder_subjects(rng, quick):
    S = []
    datas = [("empty", b""), ("one", b"z"), ("text", text(rng, 3000)), ("rand", payload_data(rng, 400, "rand")),
             ("zeros", bytes(5000)), ("code", GS.sample_code_like(rng, 2500))]
    l2 = lambda **kw: ["lzma2", dict(dict(preset=0, dict_size=1 << 16), **kw)]
    chains = [("lzma2", [l2()]), ("lzma2:bt4", [l2(preset=6, dict_size=1 << 16, nice_len=32)]),
              ("delta+lzma2", [["delta", dict(dist=4)], l2()]), ("x86+lzma2", [["x86", {}], l2()]),
              ("arm64+delta+lzma2", [["arm64", dict(start_offset=64)], ["delta", dict(dist=1)], l2(lc=0, lp=2, pb=2)]),
              ("powerpc+lzma2", [["powerpc", {}], l2()]), ("riscv+lzma2", [["riscv", {}], l2()]),
              ("ia64+lzma2", [["ia64", {}], l2()]), ("sparc+armthumb+arm+lzma2", [["sparc", {}], ["armthumb", {}], ["arm", {}], l2()])]
    if quick:
        chains = chains[:3] + rng.sample(chains[3:], 3)
    for cn, ch in chains:
        for dn, d in (datas if not quick else rng.sample(datas, 3)):
            cap = len(d) * 2 + 4096
            S.append(sub("stream_encoder", d, "enc:%s:%s" % (cn, dn), dict(filters=ch, check=rng.choice([0, 1, 4, 10])), [], False, cap, "enc"))
            S[-1]["roundtrip"] = ["stream_decoder", dict(flags=0)]
            S.append(sub("raw_encoder", d, "enc:%s:%s" % (cn, dn), dict(filters=ch), [], False, cap, "enc"))
            S[-1]["roundtrip"] = ["raw_decoder", dict(filters=ch)]
            if rng.random() < 0.5 or not quick:
                S.append(sub("block_encoder", d, "enc:%s:%s" % (cn, dn), dict(filters=ch, check=rng.choice([0, 1, 4, 10])), [], False, cap, "enc"))
    for dn, d in datas:
        cap = len(d) * 2 + 4096
        S.append(sub("easy_encoder", d, "enc:preset:" + dn, dict(preset=rng.choice([0, 1, 3]), check=4), [], False, cap, "enc"))
        S.append(sub("alone_encoder", d, "enc:alone:" + dn, dict(lzma=dict(preset=0, dict_size=1 << 16)), [], False, cap, "enc"))
        S.append(sub("raw_encoder", d, "enc:lzma1:" + dn, dict(filters=[["lzma1", dict(preset=1, dict_size=1 << 16)]]), [], False, cap, "enc"))
        S.append(sub("stream_encoder_mt", d + d, "enc:mt:" + dn, dict(threads=rng.choice([1, 2, 3]), block_size=1024, preset=0, check=1),
                     [1024, 2048], False, 2 * cap, "enc"))
    # the option lattice of the LZMA encoder (not only presets): mode x match finder x nice_len corner x depth,
    # on data long enough for pieces of odd sizes; every (mode, mf) pair appears in every run
    # data with every kind of LZ behaviour: short matches (text), literals (random), long matches >= nice_len
    # (a 700-byte block repeated with a few changed bytes), runs
    blk = bytes(rng.getrandbits(8) for _ in range(700))
    rep = bytearray(blk * 7)
    for _ in range(12):
        rep[rng.randrange(len(rep))] ^= 0x55
    big = text(rng, 5000) + bytes(rep) + GS.sample_code_like(rng, 2500) + bytes(rng.getrandbits(8) for _ in range(600)) \
        + bytes(900) + text(rng, 3000) + bytes(rep[:1500])
    HASH = {"hc3": 3, "hc4": 4, "bt2": 2, "bt3": 3, "bt4": 4}
    for mode in ("fast", "normal"):
        for mf in ("hc3", "hc4", "bt2", "bt3", "bt4"):
            for rep in range(1 if quick else 3):
                nice = rng.choice((HASH[mf], 32, 273)) if rep else rng.choice((32, 273))
                o = dict(preset=0, dict_size=rng.choice((4096, 1 << 16)), mode=MODES[mode], mf=MFS[mf], nice_len=nice,
                         depth=rng.choice((0, 0, 3)), lc=rng.choice((3, 0)), lp=0, pb=rng.choice((2, 0)))
                which = rng.choice(("lzma2", "lzma1", "alone", "stream"))
                cls = "enc:lattice:%s:%s:nice%d" % (mode, mf, nice)
                if which == "alone":
                    e = sub("alone_encoder", big, cls, dict(lzma=o), [4093, 8186], False, 2 * len(big) + 4096, "enc")
                    e["roundtrip"] = ["alone_decoder", {}]
                elif which == "stream":
                    e = sub("stream_encoder", big, cls, dict(filters=[["lzma2", o]], check=4), [4093, 8186], False, 2 * len(big) + 4096, "enc")
                    e["roundtrip"] = ["stream_decoder", dict(flags=0)]
                else:
                    e = sub("raw_encoder", big, cls, dict(filters=[[which, o]]), [4093, 8186], False, 2 * len(big) + 4096, "enc")
                    e["roundtrip"] = ["raw_decoder", dict(filters=[[which, dict(dict_size=o["dict_size"], lc=o["lc"], lp=0, pb=o["pb"])]])]
                e["lattice"] = True
                S.append(e)
    S.append(sub("index_encoder", b"", "enc:index", dict(records=[(100, 1000), (52, 1), (4000, 70000)] * 5), [], False, 4096, "enc"))
    return S


def determinism_groups(rng, quick):
    """(data, options) with run sets: threads 1..8 x timeout {0,1,100} x slicings x filter-chain forms."""
    G = []
    d1 = text(rng, 9000) + payload_data(rng, 1500, "rand") + bytes(3000)
    d2 = GS.sample_code_like(rng, 7000)
    chains = [None, [["lzma2", dict(preset=0, dict_size=1 << 16)]],
              [["x86", {}], ["delta", dict(dist=2)], ["lzma2", dict(preset=1, dict_size=1 << 16, lc=2, lp=1, pb=1)]]]
    chains.append([["delta", dict(dist=rng.choice((1, 4)))], ["lzma2", dict(preset=0, dict_size=1 << 16)]])
    # block sizes on both sides of the places where the Block Header size changes (sizes are VLIs: 128, 16384)
    BS = [64, 100, 127, 1000, 2048, 4096, 16000, 20000]
    rng.shuffle(BS)
    hist_data = text(rng, 30000)
    mode = rng.choice(("fast", "normal")); mf = rng.choice(("bt2", "bt3", "bt4", "hc3", "hc4"))
    chains.append([["lzma2", dict(preset=0, dict_size=1 << 16, mode=MODES["fast"], mf=MFS[rng.choice(("bt2", "bt3", "bt4"))], nice_len=273)]])
    chains.append([["lzma2", dict(preset=0, dict_size=1 << 16, mode=MODES[mode], mf=MFS[mf], nice_len=rng.choice((8, 64, 273)))]])
    plans = [{"k": "oneshot"}, {"k": "in1"}, {"k": "pieces", "size": 4093}, {"k": "pieces", "size": 333},
             {"k": "lists", "ins": [1, 0, 1023, 1, 1024, 2049], "outs": [0, 1, 5], "orep": 0},
             {"k": "lists", "ins": [], "irep": 777, "orep": 13}]
    for di, d in enumerate([d1, d2] if not quick else [rng.choice([d1, d2])]):
        for ci, ch in enumerate(chains):
            runs = []
            for t in range(1, 9):
                for to in (0, 1, 100):
                    if quick and rng.random() < 0.6 and not (t == 1 and to == 0):
                        continue
                    a = dict(threads=t, timeout=to)
                    cfg = dict(args=a, plan=rng.choice(plans))
                    if ch is not None and rng.random() < 0.5:
                        cfg["args"]["via_string"] = True
                    runs.append(cfg)
            args = dict(block_size=BS[(ci + di) % len(BS)], preset=0, check=4)
            if ch is not None:
                args["filters"] = ch
            # histories: the same lzma_stream was used before (other block size / preset / thread count / another kind
            # of coder) and is re-initialised without lzma_end(); the bytes must equal those of a fresh handle
            for k in range(2 if quick else 5):
                pa = dict(args, block_size=rng.choice((1 << 15, 1 << 16, 1 << 20)), threads=rng.randint(1, 4), preset=rng.choice((0, 1)))
                prior = [["stream_encoder_mt", pa, hist_data.hex()]]
                if rng.random() < 0.3:
                    prior.insert(0, ["stream_decoder", dict(flags=0), b"\xfd7zXZ\x00\x00".hex()])
                runs.append(dict(args=dict(threads=rng.randint(1, 4), timeout=rng.choice((0, 100))), plan=rng.choice(plans), prior=prior))
            G.append(dict(entry="stream_encoder_mt", cls="group:mt:%d:%d" % (di, ci), args=args, data=d, runs=runs))
    # Deterministic (not sampled) history pairs for the threaded encoder: a handle used with a BIGGER block size, then
    # re-initialised with a smaller one, against a fresh handle - for block sizes on both sides of every place where the
    # reserved Block Header size can change (the Compressed/Uncompressed Size placeholders are VLIs: 2^7, 2^14, 2^21, for
    # the block size itself and for its output bound), with filter chains whose Filter Flags have different sizes.
    edge_sizes = [100, 127, 128, 200, 16000, 16200, 16300, 16383, 16384, 20000, 2096900, 2097100, 2097151, 2097152, 2100000]
    hchains = [None, chains[3], chains[2]]
    for hi, ch in enumerate(hchains):
        for bs in edge_sizes:
            args = dict(block_size=bs, preset=0, check=1, threads=2)
            if ch is not None:
                args["filters"] = ch
            prior_bs = max(1 << 15, 4 * bs)
            runs = [dict(args={}, plan=plans[0]),
                    dict(args={}, plan=plans[0], prior=[["stream_encoder_mt", dict(args, block_size=prior_bs), hist_data.hex()]]),
                    dict(args=dict(threads=1), plan=plans[2], prior=[["stream_encoder_mt", dict(args, block_size=prior_bs * 2, threads=3), hist_data[:20000].hex()]])]
            G.append(dict(entry="stream_encoder_mt", cls="group:mt:history:%d:%d" % (hi, bs), args=args, data=d1[:9000], runs=runs))
    # single-threaded encoders: slicings x structure/text form
    for entry, args in (("stream_encoder", dict(filters=chains[2], check=1)), ("raw_encoder", dict(filters=chains[2])),
                        ("raw_encoder", dict(filters=[["arm64", dict(start_offset=16)], ["lzma2", dict(preset=0, dict_size=4096, nice_len=273, depth=7)]])),
                        ("block_encoder", dict(filters=chains[1], check=10))):
        runs = [dict(args={}, plan=p) for p in plans] + [dict(args=dict(via_string=True), plan=p) for p in plans[:2]]
        other = dict(args)
        if "filters" in other:
            other["filters"] = [["lzma2", dict(preset=rng.choice((0, 3, 6)), dict_size=1 << 20)]]
        runs.append(dict(args={}, plan=plans[0], prior=[[entry, other, hist_data[:9000].hex()]]))
        runs.append(dict(args={}, plan=plans[2], prior=[[entry, args, hist_data[:5000].hex()], ["alone_decoder", {}, b"\x5d\x00\x00".hex()]]))
        G.append(dict(entry=entry, cls="group:" + entry, args=args, data=d2[:3000], runs=runs))
    for entry, a1, a2 in (("easy_encoder", dict(preset=1, check=4), dict(preset=6, check=1)),
                          ("alone_encoder", dict(lzma=dict(preset=0, dict_size=1 << 16)), dict(lzma=dict(preset=4, dict_size=1 << 20)))):
        runs = [dict(args={}, plan=plans[0]), dict(args={}, plan=plans[1]), dict(args={}, plan=plans[0], prior=[[entry, a2, hist_data[:9000].hex()]]),
                dict(args={}, plan=plans[3], prior=[["stream_encoder_mt", dict(threads=2, block_size=4096, preset=0, check=1), hist_data[:9000].hex()]])]
        G.append(dict(entry=entry, cls="group:" + entry, args=a1, data=d1[:5000], runs=runs))
    # decoders: a re-initialised handle decodes exactly like a fresh one
    x1 = GX.encode(d1[:4000], check=4, dict_size=1 << 16, block_size=1500)
    x2 = GX.encode(d2[:6000], check=1, dict_size=4096)
    al = GA.build(data=d1[:3000], dict_size=4096)
    lzf = GZ.build([dict(data=d2[:2000], dict_size=4096)])
    raw = G2.encode(d1[:5000], dict_size=4096)
    l2 = [["lzma2", dict(dict_size=4096)]]
    for entry, a, f, priors in (
            ("stream_decoder", dict(flags=lz.CONCATENATED), x1, [["stream_decoder", dict(flags=0), x2], ["alone_decoder", {}, al]]),
            ("stream_decoder_mt", dict(flags=0, threads=2), x1, [["stream_decoder_mt", dict(flags=0, threads=3), x2], ["stream_decoder", dict(flags=0), x2[:40]]]),
            ("alone_decoder", {}, al, [["alone_decoder", {}, GA.build(data=d2[:5000], dict_size=4096)], ["auto_decoder", dict(flags=0), x2]]),
            ("lzip_decoder", dict(flags=0), lzf, [["lzip_decoder", dict(flags=0), GZ.build([dict(data=d1[:6000], dict_size=4096)])]]),
            ("raw_decoder", dict(filters=l2), raw, [["raw_decoder", dict(filters=l2), G2.encode(d2[:7000], dict_size=4096)],
                                                     ["raw_decoder", dict(filters=l2), G2.encode(d2[:7000], dict_size=4096)[:50]]]),
            ("auto_decoder", dict(flags=0), al, [["auto_decoder", dict(flags=0), x1], ["auto_decoder", dict(flags=0), lzf]])):
        runs = [dict(args={}, plan=plans[0]), dict(args={}, plan=plans[1])]
        for pr in priors:
            runs.append(dict(args={}, plan=rng.choice(plans[:4]), prior=[[pr[0], pr[1], pr[2].hex()]]))
        runs.append(dict(args={}, plan=plans[0], prior=[[pr[0], pr[1], pr[2].hex()] for pr in priors]))
        G.append(dict(entry=entry, cls="group:reinit:" + entry, args=a, data=f, runs=runs))
    return G


# ------------------------------------------------------------------------------------------------ threaded decoder, big Blocks
def mt_big_subjects(rng, quick):
    """Blocks with sizes in their headers (threaded encoder output) that are larger than one input piece: truncated inside
    the Block / its Padding / its Check, and corrupted in the middle, for lzma_stream_decoder_mt with timeout 0 and > 0."""
    from . import coders
    S = []
    n = 150000 if quick else 400000
    d = bytearray()
    while len(d) < n:
        d += rng.choice((text(rng, 3000), GS.sample_code_like(rng, 2000), bytes(rng.getrandbits(8) for _ in range(500)), bytes(700)))
    d = bytes(d[:n])
    x = coders.encode_xz(d, preset=0, check=lz.CHECK_CRC64, block_size=1 << 22)
    ev = {nm: (o, l) for nm, o, l, _ in GX.parse(x, collect=None).events}
    data_off, data_len = ev["s0.b0.data"]
    pad_off = data_off + data_len
    chk_off, chk_len = ev["s0.b0.check"]
    bounds = [data_off, pad_off, chk_off, chk_off + chk_len]
    cuts = [("in_data", data_off + int(data_len * rng.uniform(0.3, 0.9))), ("in_check", chk_off + rng.randint(1, chk_len - 1)),
            ("before_check", chk_off)]
    if chk_off > pad_off:
        cuts.append(("in_padding", pad_off + rng.randint(0, chk_off - pad_off - 1) + 0))
    for to in (0, 20):
        a = dict(flags=lz.CONCATENATED, threads=2, timeout=to)
        S.append(sub("stream_decoder_mt", x, "valid:xz:big:timeout%d" % to, a, bounds, False, n + 4096))
        for nm, c in (cuts if not quick else rng.sample(cuts, 2)):
            S.append(sub("stream_decoder_mt", x[:c], "invalid:xz:big:truncated_%s:timeout%d" % (nm, to), a, bounds, False, n + 4096))
        # corruption in the middle of the Block: a reserved LZMA2 control byte / a flipped byte of LZMA data
        chunks = [c for c in G2.parse_chunks(x[data_off:data_off + data_len]) if c['kind'] in ('lzma', 'uncompressed')]
        c = chunks[len(chunks) // 3]
        g = bytearray(x); g[data_off + c['offset']] = 0x03
        S.append(sub("stream_decoder_mt", bytes(g), "invalid:xz:big:control_byte:timeout%d" % to, a, bounds, False, n + 4096))
        g = bytearray(x); g[data_off + data_len // 2] ^= 0x20
        S.append(sub("stream_decoder_mt", bytes(g), "mutated:xz:big:timeout%d" % to, a, bounds, False, n + 4096))
    for s in S:
        s["mtbig"] = True
        s["timeout"] = 60
    return S


# ------------------------------------------------------------------------------------------------ decoder flags
FLAG_BITS = [lz.TELL_NO_CHECK, lz.TELL_UNSUPPORTED_CHECK, lz.TELL_ANY_CHECK, lz.IGNORE_CHECK, lz.CONCATENATED]
FLAGGED = ("stream_decoder", "stream_decoder_mt", "auto_decoder", "lzip_decoder")


def flag_variants(S, rng, p):
    """The decoder flags are a dimension of every container decoder: each subject gets (with probability p; always for
    the auto decoder) a twin with a random combination of LZMA_TELL_* / IGNORE_CHECK / CONCATENATED."""
    out = []
    for s in S:
        if s["entry"] in FLAGGED and (s["entry"] == "auto_decoder" or rng.random() < p):
            fl = 0
            for b in FLAG_BITS:
                if rng.random() < 0.5:
                    fl |= b
            if not fl & (lz.TELL_NO_CHECK | lz.TELL_ANY_CHECK | lz.TELL_UNSUPPORTED_CHECK):
                fl |= rng.choice((lz.TELL_NO_CHECK, lz.TELL_ANY_CHECK, lz.TELL_UNSUPPORTED_CHECK))
            if s.get("expect_ret"):
                # the verdict was fixed for this setting of LZMA_CONCATENATED (it decides whether later Streams are read)
                fl = (fl & ~lz.CONCATENATED) | (s["args"].get("flags", 0) & lz.CONCATENATED)
            t = dict(s, args=dict(s["args"], flags=fl), cls=s["cls"] + ":flags=%d" % fl)
            out.append(t)
    return out


# ------------------------------------------------------------------------------------------------ file info: big Indexes
def _xz_index_only_stream(records, check=1, padding=0):
    """A Stream whose Blocks are filler (the file-info decoder never reads them): Stream Header, sum(roundup4(unpadded))
    zero bytes, a real Index with these Records, Stream Footer, Stream Padding."""
    fl = GX.stream_flags(check)
    hdr = GX.HEADER_MAGIC + fl + struct.pack("<I", crc.crc32(fl))
    blocks = sum((u + 3) & ~3 for u, _ in records)
    body = b"\x00" + vli.encode(len(records)) + b"".join(vli.encode(u) + vli.encode(c) for u, c in records)
    body += bytes((-len(body)) % 4)
    index = body + struct.pack("<I", crc.crc32(body))
    fb = struct.pack("<I", len(index) // 4 - 1) + fl
    footer = struct.pack("<I", crc.crc32(fb)) + fb + GX.FOOTER_MAGIC
    return hdr + bytes(blocks) + index + footer + bytes(padding), 12 + blocks, len(index)


def file_info_big_subjects(rng, quick):
    """Multi-Stream files (three Streams) with Indexes of thousands of Records: the last or the middle Stream's Index is
    bigger than the decoder's 8 KiB look-back buffer, and the size of what follows the middle Stream is tuned so that the
    look-back window (file_size - 8192) starts before / inside / at the end of that Index, in its Footer or in Padding."""
    S = []
    def recs(n):
        return [(rng.choice((8, 130, 200)), rng.choice((1, 128, 70000))) for _ in range(n)]
    s0, _, _ = _xz_index_only_stream(recs(rng.randint(0, 5)), check=4, padding=4 * rng.randint(0, 2))
    shapes = [(40, 2600), (2600, 3), (5000, 2600), (2600, 40)]
    if quick:
        shapes = [shapes[0], rng.choice(shapes[1:])]
    for n1, n2 in shapes:
        s1, ioff1, ilen1 = _xz_index_only_stream(recs(n1), check=rng.choice((0, 1, 4, 10)), padding=0)
        base = len(s0)
        # where file_size - 8192 should fall, relative to Stream 1 (offsets inside s1) ...
        # (every boundary -13..+13: the decoder compares sizes that differ by the 12-byte Stream Header / Footer)
        near = [ioff1 + d for d in (-13, -12, -5, -1, 0, 1, 5, 11, 12, 13)]
        far = [ioff1 + ilen1 // 2, ioff1 + ilen1 - 3, ioff1 + ilen1 + 5, len(s1) + 2]
        follows_near = [t + 8192 - len(s1) for t in near if t + 8192 - len(s1) >= 40]
        follows_far = [t + 8192 - len(s1) for t in far if t + 8192 - len(s1) >= 40]
        if quick:
            follows = rng.sample(follows_near, min(5, len(follows_near))) + rng.sample(follows_far, min(1, len(follows_far)))
        else:
            follows = follows_near + follows_far
        # ... or simply a last Stream with n2 Records (its own Index may exceed the window)
        tails = [("n2", None)] + [("tuned", f) for f in follows]
        for kind, follow in tails:
            if kind == "n2":
                s2, _, _ = _xz_index_only_stream(recs(n2), check=1, padding=0)
                pad = 4 * rng.randint(0, 3)
            else:
                # one Record whose Block fills the space: Stream = 12 + roundup4(u) + Index(8..12) + 12
                u = max(8, (follow - 40) & ~3)
                s2, _, _ = _xz_index_only_stream([(u, 5)], check=1, padding=0)
                pad = max(0, (follow - len(s2))) & ~3
            f = s0 + s1 + bytes(pad) + s2
            b = [base + ioff1, base + ioff1 + ilen1, base + len(s1), base + len(s1) + pad, len(f) - 12, max(1, len(f) - 8192)]
            e = sub("file_info_decoder", f, "valid:xz:bigindex:%d+%s" % (n1, n2 if kind == "n2" else "tuned"), {}, b, False, 4096)
            e["fibig"] = True
            e["expect_ret"] = ["STREAM_END"]
            S.append(e)
    return S


# ------------------------------------------------------------------------------------------------ first symbol after a reset
def first_symbol_subjects(rng, quick):
    """Adversarial first LZMA symbols at every point where the dictionary is empty: a match / repeated match /
    short repeat with distance 0, 1, dict_size - 1 at the start of a stream, after an LZMA2 dictionary reset, at the
    start of a new Block - on a fresh handle and on a handle that has just decoded a valid file of the same kind with a
    full dictionary.  The format says LZMA_DATA_ERROR (nothing to copy from); glue's decoder is the independent judge."""
    S = []
    ds = 4096
    fill_syms, fill_len, _ = GL.random_symbols(rng, 700, ds, max_out=9000)
    fill = GL.expand(fill_syms)
    firsts = []
    for d0 in (0, 1, ds - 1):
        firsts += [[('match', d0, rng.choice((2, 5, 273)))]]
    firsts += [[('rep', 0, 3)], [('rep', 3, 2)], [('shortrep',)]]
    if quick:
        firsts = rng.sample(firsts, 3)
    tailsyms = [('lit', 65), ('lit', 66), ('rep', 0, 4)]
    def add(entry, data, cls, args, prior, cap=20000):
        for pr in (None, prior):
            e = sub(entry, data, cls + (":reused" if pr else ""), args, [1, 2, 5, 6, 13, 14, 18, 19], False, cap)
            if pr:
                e["prior"] = [[pr[0], pr[1], pr[2].hex()]]
            e["expect_ret"] = ["DATA_ERROR"]
            S.append(e)
    for fs in firsts:
        syms = fs + tailsyms
        name = fs[0][0] + (str(fs[0][1]) if len(fs[0]) > 1 else "")
        # raw LZMA1 / .lzma / .lz
        fl = [["lzma1", dict(dict_size=ds)]]
        add("raw_decoder", GL.encode_symbols(syms + [('eopm',)]), "invalid:raw_lzma1:first_symbol:" + name, dict(filters=fl),
            ("raw_decoder", dict(filters=fl), GL.encode_symbols(list(fill_syms) + [('eopm',)])))
        add("alone_decoder", GA.build(symbols=syms, dict_size=ds, usize=None), "invalid:lzma:first_symbol:" + name, {},
            ("alone_decoder", {}, GA.build(symbols=fill_syms, dict_size=ds, usize=None)))
        add("lzip_decoder", GZ.build([dict(symbols=syms, dict_size=ds)]), "invalid:lz:first_symbol:" + name, dict(flags=0),
            ("lzip_decoder", dict(flags=0), GZ.build([dict(symbols=fill_syms, dict_size=ds)])))
        # LZMA2: first chunk; a later chunk that resets the dictionary; a new Block of an .xz file
        l2 = [["lzma2", dict(dict_size=ds)]]
        good_plan = [dict(kind='lzma', reset='all', lc=3, lp=0, pb=2, symbols=list(fill_syms)), dict(kind='end')]
        good2 = G2.write_chunks(G2.encode_chunks(good_plan)[0])
        p1 = [dict(kind='lzma', reset='all', lc=3, lp=0, pb=2, symbols=syms), dict(kind='end')]
        p2 = [dict(kind='lzma', reset='all', lc=3, lp=0, pb=2, symbols=list(fill_syms)),
              dict(kind='lzma', reset='all', lc=3, lp=0, pb=2, symbols=syms), dict(kind='end')]
        p3 = [dict(kind='uncompressed', dict_reset=True, data=fill[:3000]),
              dict(kind='lzma', reset='all', lc=0, lp=2, pb=0, symbols=syms), dict(kind='end')]
        for tag, pl in (("first_chunk", p1), ("after_dict_reset", p2), ("after_uncompressed+reset", p3)):
            f = G2.write_chunks(G2.encode_chunks(pl)[0])
            add("raw_decoder", f, "invalid:raw_lzma2:first_symbol:%s:%s" % (tag, name), dict(filters=l2), ("raw_decoder", dict(filters=l2), good2))
        bad2 = G2.write_chunks(G2.encode_chunks(p1)[0])
        x, _ = GX.build([dict(check=1, blocks=[dict(data=good2, uncompressed=fill, dict_size=ds),
                                               dict(data=bad2, uncompressed=b"", dict_size=ds)])])
        gx, _ = GX.build([dict(check=1, blocks=[dict(data=good2, uncompressed=fill, dict_size=ds)])])
        add("stream_decoder", x, "invalid:xz:first_symbol:second_block:" + name, dict(flags=0), ("stream_decoder", dict(flags=0), gx))
        if not quick or rng.random() < 0.5:
            add("stream_decoder_mt", x, "invalid:xz:first_symbol:second_block:" + name, dict(flags=0, threads=2),
                ("stream_decoder_mt", dict(flags=0, threads=2), gx))
    return S


# ------------------------------------------------------------------------------------------------ header parses, init rejects
BCJ_ALIGN = {5: 4, 6: 16, 7: 4, 8: 2, 9: 4, 10: 4, 11: 2}


def init_reject_subjects(rng, quick):
    """Blocks whose header is valid (CRC32, sizes present, known filters with well-formed properties) but whose filter
    chain is rejected only when the Block decoder is initialised: a BCJ filter whose start offset is not a multiple of the
    architecture's alignment.  As the first Block, a middle Block and the first Block of a second Stream; single- and
    multi-threaded, without and with a timeout.  The format fixes the verdict: LZMA_OPTIONS_ERROR."""
    S = []
    t = text(rng, 1500)
    good = dict(uncompressed=t[:600], dict_size=4096, compressed_size='auto', uncompressed_size='auto')
    fids = list(BCJ_ALIGN)
    if quick:
        fids = rng.sample(fids, 3)
    for fid in fids:
        al = BCJ_ALIGN[fid]
        off = al * rng.randint(1, 1000) + rng.randint(1, al - 1)
        chain = [(fid, struct.pack("<I", off)), (0x21, b"\x04")]
        if rng.random() < 0.5:
            chain.insert(0, (3, b"\x01"))
        bad = dict(uncompressed=t[600:1100], filters=chain, compressed_size='auto', uncompressed_size='auto')
        layouts = [("first", [dict(check=1, blocks=[bad, good])]), ("middle", [dict(check=4, blocks=[good, bad, good])]),
                   ("second_stream", [dict(check=1, blocks=[good], padding=4), dict(check=1, blocks=[bad])])]
        for pos, desc in layouts:
            try:
                f, fmap = GX.build(desc)
            except Exception:
                continue
            b = fmap_bounds(fmap)
            cls = "invalid:xz:init_reject:%s:%s" % (BCJ_IDS[fid], pos)
            for entry, a in (("stream_decoder", dict(flags=lz.CONCATENATED)),
                             ("stream_decoder_mt", dict(flags=lz.CONCATENATED, threads=2, timeout=0)),
                             ("stream_decoder_mt", dict(flags=lz.CONCATENATED, threads=3, timeout=20)),
                             ("auto_decoder", dict(flags=lz.CONCATENATED))):
                e = sub(entry, f, cls + (":timeout%d" % a["timeout"] if "timeout" in a else ""), a, b, True, 6000)
                e["expect_ret"] = ["OPTIONS_ERROR"]
                e["timeout"] = 40
                S.append(e)
    return S


# ------------------------------------------------------------------------------------------------ internal limits
def internal_limit_subjects(rng, quick):
    """Coders that stop because of a limit of their own while the caller still offers input and output space: MicroLZMA
    with a compressed size smaller than the stream (and more bytes in the buffer), the file-info decoder given more bytes
    than the file size, a raw LZMA1 stream with known size followed by more bytes.  Whatever the verdict, it must be a
    documented code and two consecutive calls without progress must give LZMA_BUF_ERROR."""
    import ctypes as C
    S = []
    for i in range(2 if quick else 6):
        d = payload_data(rng, rng.choice([200, 900, 3000]))
        o = lz.lzma_opts(0, dict_size=4096)
        e = lz.Coder()
        if e.init("lzma_microlzma_encoder", C.byref(o)) != lz.OK:
            continue
        res = lz.run_coder(e, d, out_cap=len(d) * 2 + 200)
        e.end()
        if res["ret"] != lz.STREAM_END:
            continue
        comp = res["out"]; used = res["total_in"]
        for cut in (16, 1, len(comp) - 2, len(comp) // 2):
            cs = max(1, len(comp) - cut)
            for extra in (b"", b"\x00" * 7 + b"tail"):
                for exact in (1, 0):
                    a = dict(comp_size=cs, uncomp_size=used, exact=exact, dict_size=4096)
                    S.append(sub("microlzma_decoder", comp + extra, "invalid:microlzma:comp_size-%d:exact%d" % (cut if cut < 20 else 99, exact),
                                 a, [cs - 1, cs, cs + 1], False, used + 4096))
        S.append(sub("microlzma_decoder", comp + b"more", "valid:microlzma:trailing", dict(comp_size=len(comp), uncomp_size=used, exact=1, dict_size=4096),
                     [len(comp)], False, used + 4096))
    x = GX.encode(text(rng, 700), check=1, dict_size=4096)
    for fs in (len(x) - 1, len(x) - 12, 20, 12):
        e = sub("file_info_decoder", x, "invalid:xz:file_size=%d" % (fs - len(x)), dict(file_size=fs), [fs - 1, fs, 12], False, 4096)
        S.append(e)
    return S
