"""Registry of public coder constructors with sensible arguments, and sample inputs for each.

Every entry: name -> Spec(kind, make(coder, **kw) -> lzma_ret, sample(rng) -> bytes).
`make` initialises coder.strm; keep-alive objects are stored on the Coder instance.
"""
import ctypes as C, os, random
from . import lz

REPO = os.environ.get("VERIF_REPO", "/repo")

def _rand_data(rng, n, kind=None):
    kind = kind or rng.choice(["text", "rand", "zeros", "periodic"])
    if kind == "text":
        words = [b"alpha", b"beta", b"gamma", b"delta", b" ", b"\n", b"xz", b"lzma", b"0123456789"]
        out = bytearray()
        while len(out) < n:
            out += rng.choice(words)
        return bytes(out[:n])
    if kind == "rand":
        return bytes(rng.getrandbits(8) for _ in range(n))
    if kind == "zeros":
        return bytes(n)
    p = bytes(rng.getrandbits(8) for _ in range(rng.randint(1, 9)))
    return (p * (n // len(p) + 1))[:n]

def rand_data(rng, n, kind=None):
    return _rand_data(rng, n, kind)

# ------------------------------------------------------------------ one-shot helpers (real liblzma)
def encode_xz(data, preset=1, check=lz.CHECK_CRC32, filters=None, block_size=None):
    L = lz.L()
    c = lz.Coder()
    if block_size:
        mt = lz.Mt(); mt.threads = 1; mt.block_size = block_size; mt.preset = preset; mt.check = check
        if filters is not None:
            mt.filters = C.cast(filters, C.POINTER(lz.Filter))
        r = c.init("lzma_stream_encoder_mt", C.byref(mt))
    elif filters is not None:
        r = c.init("lzma_stream_encoder", filters, check)
    else:
        r = c.init("lzma_easy_encoder", preset, check)
    assert r == lz.OK, r
    res = lz.run_coder(c, data)
    c.end()
    assert res["ret"] == lz.STREAM_END, res["ret"]
    return res["out"]

def decode_with(init, args, data, flags_finish=True, out_cap=None):
    c = lz.Coder()
    r = c.init(init, *args)
    if r != lz.OK:
        return dict(ret=r, out=b"", total_in=0)
    res = lz.run_coder(c, data, out_cap=out_cap)
    c.end()
    return res

def encode_alone(data, **kw):
    o = lz.lzma_opts(1, **kw)
    c = lz.Coder(); c.keep = o
    assert c.init("lzma_alone_encoder", C.byref(o)) == lz.OK
    res = lz.run_coder(c, data); c.end()
    assert res["ret"] == lz.STREAM_END
    return res["out"]

def encode_raw(data, filters):
    c = lz.Coder()
    assert c.init("lzma_raw_encoder", filters) == lz.OK
    res = lz.run_coder(c, data); c.end()
    assert res["ret"] == lz.STREAM_END
    return res["out"]

def lzma2_filters(preset=1, **kw):
    return lz.make_filters([(lz.FILTER_LZMA2, lz.lzma_opts(preset, **kw))])

def lzma1_filters(preset=1, **kw):
    return lz.make_filters([(lz.FILTER_LZMA1, lz.lzma_opts(preset, **kw))])

def build_index(records, check=lz.CHECK_CRC32):
    L = lz.L()
    idx = L.lzma_index_init(None)
    for u, n in records:
        assert L.lzma_index_append(idx, None, u, n) == lz.OK
    return idx

def test_file(name):
    with open(os.path.join(REPO, "tests", "files", name), "rb") as f:
        return f.read()

# ------------------------------------------------------------------ registry
class Spec:
    def __init__(self, name, kind, make, sample, tlaname=None, consumes_all=True):
        self.name = name; self.kind = kind; self.make = make; self.sample = sample
        self.tlaname = tlaname or name

def _mk_stream_encoder(c, **kw):
    c.keep = lzma2_filters(kw.get("preset", 1))
    return c.init("lzma_stream_encoder", c.keep, kw.get("check", lz.CHECK_CRC32))
def _mk_easy_encoder(c, **kw):
    return c.init("lzma_easy_encoder", kw.get("preset", 1), kw.get("check", lz.CHECK_CRC64))
def _mk_stream_encoder_mt(c, **kw):
    mt = lz.Mt(); mt.threads = kw.get("threads", 2); mt.block_size = kw.get("block_size", 8192)
    mt.preset = kw.get("preset", 1); mt.check = kw.get("check", lz.CHECK_CRC32); mt.timeout = kw.get("timeout", 0)
    c.keep = mt
    return c.init("lzma_stream_encoder_mt", C.byref(mt))
def _mk_block_encoder(c, **kw):
    b = lz.Block(); b.version = 1; b.check = kw.get("check", lz.CHECK_CRC32)
    f = lzma2_filters(kw.get("preset", 1)); b.filters = C.cast(f, C.POINTER(lz.Filter))
    b.compressed_size = lz.VLI_UNKNOWN; b.uncompressed_size = lz.VLI_UNKNOWN
    c.keep = (b, f)
    assert lz.L().lzma_block_header_size(C.byref(b)) == lz.OK
    return c.init("lzma_block_encoder", C.byref(b))
def _mk_raw_encoder(c, **kw):
    c.keep = kw.get("filters") or lzma2_filters(kw.get("preset", 1))
    return c.init("lzma_raw_encoder", c.keep)
def _mk_raw_lzma1_encoder(c, **kw):
    c.keep = lzma1_filters(kw.get("preset", 1))
    return c.init("lzma_raw_encoder", c.keep)
def _mk_alone_encoder(c, **kw):
    c.keep = lz.lzma_opts(kw.get("preset", 1))
    return c.init("lzma_alone_encoder", C.byref(c.keep))
def _mk_index_encoder(c, **kw):
    idx = build_index(kw.get("records", [(100, 1000), (52, 1), (4000, 70000)]))
    c.keep_index = idx
    return c.init("lzma_index_encoder", idx)
def _mk_microlzma_encoder(c, **kw):
    c.keep = lz.lzma_opts(kw.get("preset", 1))
    return c.init("lzma_microlzma_encoder", C.byref(c.keep))

def _mk_stream_decoder(c, **kw):
    return c.init("lzma_stream_decoder", kw.get("memlimit", lz.UINT64_MAX), kw.get("flags", 0))
def _mk_stream_decoder_mt(c, **kw):
    mt = lz.Mt(); mt.threads = kw.get("threads", 2); mt.flags = kw.get("flags", 0); mt.timeout = kw.get("timeout", 0)
    mt.memlimit_threading = kw.get("memlimit_threading", lz.UINT64_MAX)
    mt.memlimit_stop = kw.get("memlimit", lz.UINT64_MAX)
    c.keep = mt
    return c.init("lzma_stream_decoder_mt", C.byref(mt))
def _mk_auto_decoder(c, **kw):
    return c.init("lzma_auto_decoder", kw.get("memlimit", lz.UINT64_MAX), kw.get("flags", 0))
def _mk_alone_decoder(c, **kw):
    return c.init("lzma_alone_decoder", kw.get("memlimit", lz.UINT64_MAX))
def _mk_lzip_decoder(c, **kw):
    return c.init("lzma_lzip_decoder", kw.get("memlimit", lz.UINT64_MAX), kw.get("flags", 0))
def _mk_microlzma_decoder(c, **kw):
    return c.init("lzma_microlzma_decoder", kw["comp_size"], kw["uncomp_size"], kw.get("exact", 1), kw.get("dict_size", 1 << 20))
def _mk_raw_decoder(c, **kw):
    c.keep = kw.get("filters") or lzma2_filters(1)
    return c.init("lzma_raw_decoder", c.keep)
def _mk_block_decoder(c, **kw):
    """kw['header']: bytes of a Block Header (first byte gives size)."""
    hdr = kw["header"]
    b = lz.Block(); b.version = 1; b.check = kw.get("check", lz.CHECK_CRC32)
    f = (lz.Filter * 5)()
    b.filters = C.cast(f, C.POINTER(lz.Filter))
    b.header_size = (hdr[0] + 1) * 4
    hb = C.create_string_buffer(bytes(hdr), len(hdr))
    r = lz.L().lzma_block_header_decode(C.byref(b), None, hb)
    c.keep = (b, f, hb)
    if r != lz.OK:
        return r
    r = c.init("lzma_block_decoder", C.byref(b))
    lz.L().lzma_filters_free(b.filters, None)
    return r
def _mk_index_decoder(c, **kw):
    c.index_out = C.c_void_p()
    return c.init("lzma_index_decoder", C.byref(c.index_out), kw.get("memlimit", lz.UINT64_MAX))
def _mk_file_info_decoder(c, **kw):
    c.index_out = C.c_void_p()
    return c.init("lzma_file_info_decoder", C.byref(c.index_out), kw.get("memlimit", lz.UINT64_MAX), kw["file_size"])

def _xz_sample(rng, blocks=False):
    n = rng.choice([0, 1, 17, 300, 5000])
    d = _rand_data(rng, n)
    return encode_xz(d, preset=rng.choice([0, 1]), check=rng.choice([0, 1, 4, 10]),
                     block_size=4096 if blocks else None)

def _xz_multi_sample(rng):
    parts = []
    for _ in range(rng.randint(1, 3)):
        parts.append(_xz_sample(rng, blocks=rng.random() < 0.5))
        parts.append(bytes(4 * rng.randint(0, 2)))
    return b"".join(parts[:-1]) if rng.random() < 0.5 else b"".join(parts)

def _index_sample(rng):
    L = lz.L()
    idx = build_index([(rng.randint(5, 5000), rng.randint(0, 90000)) for _ in range(rng.randint(0, 6))])
    size = L.lzma_index_size(idx)
    buf = lz.Buf(size); pos = C.c_size_t(0)
    assert L.lzma_index_buffer_encode(idx, buf.addr, C.byref(pos), size) == lz.OK
    L.lzma_index_end(idx, None)
    return buf.data(pos.value)

_LZ_FILES = ["good-1-v0.lz", "good-1-v1.lz", "good-2-v0-v1.lz", "good-2-v1-v0.lz", "good-2-v1-v1.lz",
             "good-1-v0-trailing-1.lz", "good-1-v1-trailing-2.lz"]

def _raw_sample(rng):
    return encode_raw(_rand_data(rng, rng.choice([0, 1, 300, 5000])), lzma2_filters(1))

def _block_parts(rng):
    """A Block cut out of a one-Block .xz stream: returns (header, rest_of_block, check)."""
    check = rng.choice([0, 1, 4, 10])
    x = encode_xz(_rand_data(rng, rng.choice([1, 300, 5000])), check=check)
    hs = (x[12] + 1) * 4
    # Block ends where the Index starts; find via backward size
    bsize = (int.from_bytes(x[-8:-4], "little") + 1) * 4
    end = len(x) - 12 - bsize
    return x[12:12 + hs], x[12 + hs:end], check

REG = {}
def _reg(s):
    REG[s.name] = s
_reg(Spec("stream_encoder", "enc", _mk_stream_encoder, lambda r: _rand_data(r, r.choice([0, 1, 100, 3000]))))
_reg(Spec("easy_encoder", "enc", _mk_easy_encoder, lambda r: _rand_data(r, r.choice([0, 1, 100, 3000]))))
_reg(Spec("stream_encoder_mt", "enc", _mk_stream_encoder_mt, lambda r: _rand_data(r, r.choice([0, 1, 100, 20000]))))
_reg(Spec("block_encoder", "enc", _mk_block_encoder, lambda r: _rand_data(r, r.choice([0, 1, 100, 3000]))))
_reg(Spec("raw_encoder", "enc", _mk_raw_encoder, lambda r: _rand_data(r, r.choice([0, 1, 100, 3000]))))
_reg(Spec("raw_lzma1_encoder", "enc", _mk_raw_lzma1_encoder, lambda r: _rand_data(r, r.choice([0, 1, 100, 3000])), tlaname="raw_encoder"))
_reg(Spec("alone_encoder", "enc", _mk_alone_encoder, lambda r: _rand_data(r, r.choice([0, 1, 100, 3000]))))
_reg(Spec("index_encoder", "enc", _mk_index_encoder, lambda r: b""))
_reg(Spec("microlzma_encoder", "enc", _mk_microlzma_encoder, lambda r: _rand_data(r, r.choice([1, 100, 3000]))))
_reg(Spec("stream_decoder", "dec", _mk_stream_decoder, _xz_multi_sample))
_reg(Spec("stream_decoder_mt", "dec", _mk_stream_decoder_mt, _xz_multi_sample))
_reg(Spec("auto_decoder", "dec", _mk_auto_decoder, lambda r: r.choice([_xz_sample(r), encode_alone(_rand_data(r, 300)), test_file(r.choice(_LZ_FILES))])))
_reg(Spec("alone_decoder", "dec", _mk_alone_decoder, lambda r: encode_alone(_rand_data(r, r.choice([0, 1, 300, 5000])))))
_reg(Spec("lzip_decoder", "dec", _mk_lzip_decoder, lambda r: test_file(r.choice(_LZ_FILES))))
_reg(Spec("raw_decoder", "dec", _mk_raw_decoder, _raw_sample))
_reg(Spec("index_decoder", "dec", _mk_index_decoder, _index_sample))
# block_decoder, microlzma_decoder and file_info_decoder need per-sample constructor arguments:
# see make_with_sample()

def make_with_sample(name, rng, **kw):
    """Returns (coder, data, init_ret). Handles coders whose constructor depends on the sample."""
    c = kw.pop("coder", None) or lz.Coder(kw.pop("allocator", None))   # coder=: re-initialise an existing handle
    if name == "block_decoder":
        hdr, rest, check = _block_parts(rng)
        r = _mk_block_decoder(c, header=hdr, check=check)
        return c, rest, r
    if name == "microlzma_decoder":
        d = _rand_data(rng, rng.choice([1, 300, 3000]))
        e = lz.Coder(); e.keep = lz.lzma_opts(1)
        assert e.init("lzma_microlzma_encoder", C.byref(e.keep)) == lz.OK
        res = lz.run_coder(e, d); e.end()
        comp = res["out"]
        r = _mk_microlzma_decoder(c, comp_size=len(comp), uncomp_size=len(d), exact=1, dict_size=1 << 20)
        return c, comp, r
    if name == "file_info_decoder":
        data = kw.pop("data", None) or _xz_multi_sample(rng)
        r = _mk_file_info_decoder(c, file_size=len(data), **kw)
        return c, data, r
    s = REG[name]
    data = s.sample(rng)
    r = s.make(c, **kw)
    return c, data, r

ALL = list(REG) + ["block_decoder", "microlzma_decoder", "file_info_decoder"]
def tlaname(name):
    return REG[name].tlaname if name in REG else name
def kind(name):
    return REG[name].kind if name in REG else "dec"
