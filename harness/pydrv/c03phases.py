"""C03 replay phases.  They run in WORKER processes (python -m harness.pydrv.c03phases <job.json> <out.jsonl>) so that a
crash of the library under test (sanitizer report, assertion, SIGSEGV) is observed by the check instead of killing it.
Every ctx call is recorded as one JSON line; the parent (checks/c03.py: run_phase) replays them into the real Ctx.
"""
import json, os, random, collections, struct, glob, sys

HERE = os.path.dirname(os.path.dirname(os.path.dirname(os.path.abspath(__file__))))

class MachineryError(Exception):
    pass

class RecCtx:
    """Stand-in for lib.ctx.Ctx inside a worker: records calls."""
    def __init__(self, out, seed, quick):
        self._out = out
        self.seed = seed
        self.quick = quick
        self.rng = random.Random(seed)
        self.notes = _Notes(self)
    def _w(self, obj):
        self._out.write(json.dumps(obj, default=str) + "\n")
        self._out.flush()
    def violation(self, key, detail, replay_obj=None):
        self._w(dict(e="violation", key=key, detail=str(detail)[:4000], replay=replay_obj))
    def case(self, key=None, nontrivial=True):
        self._w(dict(e="case", key=repr(key)))
    def sample(self, obj, limit=6):
        self._w(dict(e="sample", obj=obj))
    def add_traces(self, n=1):
        self._w(dict(e="traces", n=n))
    def log(self, *a):
        self._w(dict(e="log", msg=" ".join(str(x) for x in a)))
    def begin(self, i, desc=None):
        self._w(dict(e="begin", i=i, desc=desc))

class _Notes:
    def __init__(self, c):
        self.c = c
    def append(self, x):
        self.c._w(dict(e="note", msg=x))

# ---------------------------------------------------------------------------------------------- Lz layer
def replay_lz(ctx, D, lz, plans_known, plans_raw, dict_rows, start=0):
    from harness.glue import lzma as glz, alone as galone, lzma2 as gl2
    n = 0
    seen = set()
    def viol(key, detail, obj):
        if key not in seen:
            seen.add(key)
            ctx.violation(key, detail, obj)
    vmap = {"run": "STREAM_END", "end": "STREAM_END", "dist": "DATA_ERROR", "size": "DATA_ERROR", "eopm": "DATA_ERROR"}
    items = [("k", p) for p in plans_known if p['syms']] + [("r", p) for p in plans_raw] + [("d", r) for r in dict_rows]
    for idx in range(start, len(items)):
        kind, p = items[idx]
        ctx.begin(idx, dict(kind="lz:" + kind, item=p))
        if kind == "k":
            # LZMA2 chunk(s): size known = sum of all symbols, marker forbidden
            data = D.lz_plan_to_lzma2(p)
            exp = bytes(D.BYTEMAP[b] for b in p['out'])
            pre = b"" if p['ctx'] == 'fresh' else (D.BIGPRE_OUT if p['ctx'] == 'afterwrap' else bytes([0x41, 0xFE, 0x41, 0xFE]))
            want = vmap[p['v']]
            last = p['syms'][-1]['t']
            for mode in ("oneshot", "bytewise"):
                ret, out, _, _ = D.raw_decode([(lz.FILTER_LZMA2, D.lzma1_opts(4096))], data, slices=None if mode == "oneshot" else [1] * len(data))
                n += 1
                if ret != want:
                    viol("lz:ret:%s:%s:%s" % (p['ctx'], last, p['v']), "LZMA2 chunk %s (%s): ret %s expected %s" % (p, mode, ret, want), dict(kind="lz", plan=p, data=data.hex()))
                elif want == "STREAM_END" and out != pre + exp:
                    viol("lz:out:%s:%s" % (p['ctx'], last), "LZMA2 chunk %s: output %s expected %s" % (p, out.hex(), (pre + exp).hex()), dict(kind="lz", plan=p, data=data.hex()))
                elif want != "STREAM_END" and p['v'] != 'size' and not out.startswith(pre + exp):
                    viol("lz:outprefix:%s:%s" % (p['ctx'], last), "LZMA2 chunk %s: output before the error %s" % (p, out.hex()), dict(kind="lz", plan=p))
            ctx.case(key=("lz2", p['ctx'], json.dumps(p['syms'])))
        elif kind == "r":
            # raw LZMA1, size unknown: must end with the marker
            syms = p['syms']
            data = D.lz_plan_to_lzma1(p, eopm=False)
            exp = bytes(D.BYTEMAP[b] for b in p['out'])
            want = {"end": "STREAM_END", "run": "BUF_ERROR", "dist": "DATA_ERROR"}.get(p['v'], "DATA_ERROR")
            for mode in ("oneshot", "bytewise"):
                ret, out, _, _ = D.raw_decode([(lz.FILTER_LZMA1, D.lzma1_opts(4096))], data, slices=None if mode == "oneshot" else [1] * len(data))
                n += 1
                if ret != want:
                    viol("lz1:ret:%s:%s:%s" % (syms[-1]['t'] if syms else "empty", p['v'], mode), "raw LZMA1 %s (%s): ret %s expected %s" % (p, mode, ret, want), dict(kind="lz1", plan=p, data=data.hex()))
                elif want == "STREAM_END" and out != exp:
                    viol("lz1:out", "raw LZMA1 %s: output %s expected %s" % (p, out.hex(), exp.hex()), dict(kind="lz1", plan=p))
            ctx.case(key=("lz1", json.dumps(syms)))
        elif 'props' in p:
            # one LZMA2 chunk (control 0xE0) carrying this properties byte; the payload is encoded with the lc/lp/pb it means
            row = p
            b = row['props']
            rng = random.Random(b)
            lc, lp, pb = (row['lc'], row['lp'], row['pb']) if row['valid'] else (3, 0, 2)
            syms, nout, _ = glz.random_symbols(rng, 25, dict_size=4096, max_out=300)
            chunks, total = gl2.encode_chunks([dict(kind='lzma', reset='all', symbols=syms, lc=lc, lp=lp, pb=pb, props=b), dict(kind='end')])
            data = gl2.write_chunks(chunks)
            ret, out, _, _ = D.raw_decode([(lz.FILTER_LZMA2, D.lzma1_opts(4096))], data)
            want = "STREAM_END" if row['valid'] else "DATA_ERROR"
            ctx.case(key=("props", b)); n += 1
            if ret != want:
                viol("lzma2:props:%s:%s" % ("valid" if row['valid'] else "invalid", ret), "LZMA2 properties byte %d (lc=%d lp=%d pb=%d): %s, model %s" % (b, row['lc'], row['lp'], row['pb'], ret, want),
                     dict(kind="props", row=row, data=data.hex()))
            elif want == "STREAM_END" and out != total:
                viol("lzma2:props:out", "LZMA2 properties byte %d: wrong bytes" % b, dict(kind="props", row=row, data=data.hex()))
        else:
            # dictionary-size boundary at the real constants (EvalLzDict)
            row = p
            Dz, W, d = row['D'], row['W'], row['d']
            rng = random.Random(W * 7919 + d)
            lits = [('lit', rng.randrange(256)) for _ in range(W)]
            syms = lits + [('match', d, 2), ('eopm',)]
            data = glz.encode_symbols(syms, 3, 0, 2)
            want = "STREAM_END" if row['impl'] else "DATA_ERROR"
            hist = bytes(b for _, b in lits)
            exp = hist
            if row['impl']:
                h = bytearray(hist)
                for _ in range(2):
                    h.append(h[len(h) - d - 1])
                exp = bytes(h)
            ret, out, _, _ = D.raw_decode([(lz.FILTER_LZMA1, D.lzma1_opts(Dz))], data, out_cap=1 << 15)
            ctx.case(key=("lzdict", Dz, W, d))
            n += 1
            cls = "relaxed" if row['relaxed'] else ("valid" if row['format'] else "invalid")
            if ret != want:
                viol("lzdict:ret:%s" % cls, "dict_size %d, %d bytes written, dist0 %d (%s): raw LZMA1 ret %s expected %s" % (Dz, W, d, cls, ret, want), dict(kind="lzdict", row=row))
            elif want == "STREAM_END" and out != exp:
                viol("lzdict:out:%s" % cls, "dict_size %d W %d d %d: wrong bytes copied" % (Dz, W, d), dict(kind="lzdict", row=row))
            # the same through the .lzma container (header dictionary size = D, unknown size, marker)
            al = galone.build(symbols=syms[:-1], lc=3, lp=0, pb=2, dict_size=Dz, usize=None, eopm=True)
            c = lz.Coder()
            if c.init("lzma_alone_decoder", lz.UINT64_MAX) == lz.OK:
                r2, o2, _, _ = D.drive(c, al, out_cap=1 << 15)
                c.end()
                if r2 != want:
                    viol("lzdict:alone:ret:%s" % cls, "dict_size %d W %d d %d (%s): .lzma ret %s expected %s" % (Dz, W, d, cls, r2, want), dict(kind="lzdict", row=row))
                elif want == "STREAM_END" and o2 != exp:
                    viol("lzdict:alone:out:%s" % cls, ".lzma wrong bytes", dict(kind="lzdict", row=row))
                n += 1
    return n

# ---------------------------------------------------------------------------------------------- VLI
def replay_vli(ctx, D, lz, bufs, start=0):
    """Vli.tla buffers -> lzma_vli_decode in single-call mode and in multi-call mode under every two-piece cut and byte by byte"""
    from harness.glue import vli as gvli
    n = 0
    seen = set()
    def viol(key, detail, obj):
        if key not in seen:
            seen.add(key); ctx.violation(key, detail, obj)
    for idx in range(start, len(bufs)):
        p = bufs[idx]
        ctx.begin(idx, dict(kind="vli", buf=p['buf']))
        rng = random.Random(ctx.seed * 977 + idx)
        data = bytes((0x80 if b['z'] else rng.choice([0x81, 0xFF, 0xA5, 0xC0])) if b['c'] else (0x00 if b['z'] else rng.choice([0x01, 0x7F, 0x25, 0x40]))
                     for b in p['buf'])
        shape = "".join(("C" if b['c'] else "E") + ("0" if b['z'] else "") for b in p['buf'])
        repl = dict(kind="vli", bytes=data.hex(), model=p)
        value = None
        if p['single'] == "END":
            value = gvli.decode(data, 0, 9, len(data))[0]
        # single-call mode
        r, used, v = D.vli_decode_calls(data, None)
        n += 1
        want = "OK" if p['single'] == "END" else "DATA_ERROR"
        if r != want or (want == "OK" and (used != p['spos'] or v != value)):
            viol("vli:single:%s->%s" % (want, r), "lzma_vli_decode(single-call) on %s (%s): %s, %d bytes, value %s; model %s, %d bytes, value %s" % (
                data.hex(), shape, r, used, v, want, p['spos'], value), repl)
        # multi-call mode: byte by byte, and cut in two at every place
        wantm = {"END": "STREAM_END", "run": "OK", "DATA_ERROR": "DATA_ERROR"}[p['multi']]
        for pieces in [[1] * len(data)] + [[k, len(data) - k] for k in range(1, len(data))] + [[len(data)]]:
            r, used, v = D.vli_decode_calls(data, pieces)
            n += 1
            if r != wantm or (wantm != "DATA_ERROR" and used != p['mpos']) or (wantm == "STREAM_END" and v != value):
                viol("vli:multi:%s->%s" % (wantm, r), "lzma_vli_decode(multi-call, pieces %s) on %s (%s): %s, %d bytes, value %s; model %s, %d bytes, value %s" % (
                    pieces[:4], data.hex(), shape, r, used, v, wantm, p['mpos'], value), repl)
        ctx.case(key=("vli", shape))
    return n

# ---------------------------------------------------------------------------------------------- LZMA2 layer
def replay_lzma2(ctx, D, lz, items, start=0):
    """distinct chunk sequences (deduplicated GenLzma2 plans) -> raw LZMA2 decoder, one shot and byte by byte"""
    n = 0
    seenk = set()
    for idx in range(start, len(items)):
        it = items[idx]
        ctx.begin(idx, dict(kind="lzma2", chunks=it['chunks']))
        rng = random.Random(ctx.seed * 100003 + idx)
        conc = D.concretise_chunks(it['chunks'], rng)
        tail = b"" if it['ret'] == 'STREAM_END' else bytes(rng.randrange(1, 256) for _ in range(24))
        want = {"STREAM_END": {"STREAM_END"}, "DATA_ERROR": {"DATA_ERROR"}, "DATA_OR_BUF": {"DATA_ERROR", "BUF_ERROR"},
                "run": {"BUF_ERROR"}}[it['ret']]
        data = conc['data'] + (tail if it['ret'] in ("DATA_ERROR", "DATA_OR_BUF") else b"")
        exp = b"".join(conc['outs'][i - 1] for i in it['out'])
        runs = [("oneshot", conc, data, exp), ("bytewise", conc, data, exp)]
        if it['ret'] == 'STREAM_END' or idx % 4 == 0:
            # the same chunk sequence with every data chunk larger than the dictionary: later resets hit a wrapped window
            concw = D.concretise_chunks(it['chunks'], random.Random(ctx.seed * 100003 + idx), big=True)
            dataw = concw['data'] + (tail if it['ret'] in ("DATA_ERROR", "DATA_OR_BUF") else b"")
            runs.append(("wrap", concw, dataw, b"".join(concw['outs'][i - 1] for i in it['out'])))
        for mode, conc, data, exp in runs:
            sl = [1] * len(data) if mode == "bytewise" else None
            ret, out, _, tin = D.raw_decode([(lz.FILTER_LZMA2, D.lzma1_opts(4096))], data, slices=sl)
            n += 1
            kinds = "/".join("%s.%s%s" % (c['k'], c['reset'], "" if c['pl'] == 'ok' and c['props'] == 'ok' else "!" + c['pl'] + c['props']) for c in it['chunks'])
            ctx.case(key=("l2", kinds, mode))
            if ret not in want:
                k = "lzma2:ret:%s:%s" % (kinds, mode)
                if k not in seenk:
                    seenk.add(k)
                    ctx.violation(k, "chunks %s: raw LZMA2 decoder returned %s, model %s" % (kinds, ret, sorted(want)), dict(kind="lzma2", chunks=it['chunks'], data=data.hex()))
            elif ret == "STREAM_END" and (out != exp or tin != len(conc['data'])):
                k = "lzma2:out:%s" % kinds
                if k not in seenk:
                    seenk.add(k)
                    ctx.violation(k, "chunks %s: output/consumption differs (%d/%d bytes, consumed %d/%d)" % (kinds, len(out), len(exp), tin, len(conc['data'])),
                                  dict(kind="lzma2", chunks=it['chunks'], data=data.hex()))
            elif ret != "STREAM_END" and not out.startswith(exp):
                k = "lzma2:outprefix:%s" % kinds
                if k not in seenk:
                    seenk.add(k)
                    ctx.violation(k, "chunks %s: the data of the chunks accepted before the error was not delivered intact" % kinds, dict(kind="lzma2", chunks=it['chunks']))
    return n

# ---------------------------------------------------------------------------------------------- container layer
def lzflags(lz, fl):
    return (lz.CONCATENATED if fl['concat'] else 0) | (lz.TELL_NO_CHECK if fl['tellNo'] else 0) | \
           (lz.TELL_UNSUPPORTED_CHECK if fl['tellUnsup'] else 0) | (lz.TELL_ANY_CHECK if fl['tellAny'] else 0) | \
           (lz.IGNORE_CHECK if fl['ignoreCheck'] else 0)

def describe(af):
    """short stable description of an abstract file for violation keys (shape only)"""
    return "+".join("s%d" % len(s['blocks']) for s in af['streams'])

def filter_specs(lz, D, b, props_bytes):
    """ctypes filter options for lzma_raw_decoder from a Block's abstract filters + the property bytes used"""
    specs = []
    for f, pb in zip(b['filters'], props_bytes):
        fid = D.FILTER_ID[f['id']]
        if f['id'] == 'lzma2':
            specs.append((fid, D.lzma1_opts(4096)))
        elif f['id'] == 'delta':
            o = lz.OptDelta(); o.type = 0; o.dist = pb[0] + 1
            specs.append((fid, o))
        else:
            if len(pb) == 4:
                o = lz.OptBcj(); o.start_offset = struct.unpack("<I", pb)[0]
                specs.append((fid, o))
            else:
                specs.append((fid, None))
    return specs

def replay_xz(ctx, D, lz, groups, cat, start=0, base=0, mt_every=3):
    """Every (file, flags) plan (grouped by the parent: rets = admissible set) through the real entry points."""
    seen = set()
    def viol(key, detail, obj):
        if key not in seen:
            seen.add(key)
            ctx.violation(key, detail, obj)
    n = 0
    sampled = False
    bycat = {e['did']: e for e in cat}
    for idx in range(start, len(groups)):
        g = groups[idx]
        gi = base + idx
        g['rets'] = set(g['rets'])
        af, fl = g['file'], g['flags']
        ctx.begin(idx, dict(kind="xz", file=af, flags=fl))
        rng = random.Random(ctx.seed * 7 + gi)
        data, fmap, meaning = D.concretise_file(af, cat, rng, variant=gi)
        flags = lzflags(lz, fl)
        exp_done = b"".join(meaning[:len(g['out'])])
        shape = describe(af)
        repl = dict(kind="xz", file=af, flags=fl, model=dict(ret=sorted(g['rets']), out=g['out'], tells=g['tells'], pos=g['pos']), bytes=data.hex())
        where = "%s:%s:b%d" % (g['seq'], "s%d" % g['si'], g['bi'])
        def compare(api, ret, out, tells, tin, rets, check_tells=True):
            if ret not in rets:
                viol("xz:%s:ret:%s:%s->%s" % (api, g['seq'], "/".join(sorted(rets)), ret),
                     "%s on %s (model stops in %s): returned %s, model says %s" % (api, shape, where, ret, sorted(rets)), repl)
                return
            if check_tells and tells != g['tells']:
                viol("xz:%s:tells:%s" % (api, "/".join(g['tells']) or "none"), "%s: intermediate returns %s, model %s" % (api, tells, g['tells']), repl)
            if ret in ("STREAM_END", "OK"):
                if out != exp_done:
                    viol("xz:%s:out:%s" % (api, shape), "%s: decoded bytes differ from the meaning of the file (%d vs %d bytes)" % (api, len(out), len(exp_done)), repl)
                if tin is not None and tin != g['pos']:
                    viol("xz:%s:consumed:%s" % (api, shape), "%s: consumed %d bytes, model %d" % (api, tin, g['pos']), repl)
            elif not out.startswith(exp_done):
                viol("xz:%s:outprefix:%s" % (api, g['seq']), "%s: data of the Blocks completed before the error is not intact" % api, repl)
        if "STREAM_END" in g['rets'] and len(data) != g['size']:
            raise MachineryError("concretiser and model disagree on the size of %s: %d vs %d" % (shape, len(data), g['size']))
        # lzma_stream_decoder, everything at once
        ret, out, tells, tin = D.decode_stream(data, flags)
        compare("stream_decoder", ret, out, tells, tin, g['rets'])
        n += 1
        ctx.case(key=("xz", json.dumps(af, sort_keys=True), json.dumps(fl, sort_keys=True)))
        # ... byte by byte (the verdict must not depend on it)
        if gi % 2 == 0:
            ret, out, tells, tin = D.decode_stream(data, flags, slices=[1] * len(data))
            compare("stream_decoder/1", ret, out, tells, tin, g['rets'])
            n += 1
        # ... into one-byte output buffers when a Block has non-last filters (they keep a few bytes back)
        chained = any(len(b['filters']) > 1 for s_ in af['streams'] for b in s_['blocks'])
        if chained:
            ret, out, tells, tin = D.decode_stream(data, flags, out_slice=1)
            compare("stream_decoder/out1", ret, out, tells, tin, g['rets'])
            ret, out, tells, tin = D.decode_stream(data, flags, out_slice=3, slices=[5] * (len(data) // 5 + 1))
            compare("stream_decoder/out3", ret, out, tells, tin, g['rets'])
            n += 2
        # lzma_stream_buffer_decode (no LZMA_TELL_ANY_CHECK there)
        if not fl['tellAny']:
            bret, bout, bin_ = D.buffer_decode(data, flags)
            brets = set()
            for r in g['rets']:
                brets.add({"STREAM_END": "OK", "BUF_ERROR": "DATA_ERROR"}.get(r, r))
            if g['tells'] and bret == g['tells'][0]:
                # buffer API: the first LZMA_*_CHECK code ends the call (documented in container.h)
                pass
            elif g['tells']:
                viol("xz:buffer_decode:tell", "lzma_stream_buffer_decode returned %s where the stream decoder reports %s first" % (bret, g['tells']), repl)
            else:
                compare("buffer_decode", bret, bout if bret == "OK" else exp_done, [], bin_ if bret == "OK" else None, brets, check_tells=False)
            n += 1
        # lzma_stream_decoder_mt with two threads
        if gi % mt_every == 0:
            ret, out, tells, tin = D.decode_stream(data, flags, mt=2)
            compare("stream_decoder_mt", ret, out, tells, tin, g['rets'])
            n += 1
        names = {nm: (o, l) for nm, o, l in fmap}
        # the Index field of every Stream on its own (lzma_index_buffer_decode, lzma_index_decoder byte by byte)
        if fl['concat'] and not (fl['tellNo'] or fl['tellAny'] or fl['ignoreCheck']):
            for si, want in enumerate(g.get('ialone', [])):
                a = names.get("s%d.index.indicator" % si); z = names.get("s%d.index.crc32" % si)
                if want == "skip" or a is None or z is None:
                    continue
                ib = data[a[0]:z[0] + z[1]]
                for bw in (False, True):
                    r, used = D.index_decode(ib, bytewise=bw)
                    n += 1
                    if r != want:
                        viol("xz:index_decoder%s:ret:%s->%s" % ("/1" if bw else "", want, r), "the Index of Stream %d alone through %s: %s, model %s" % (
                            si, "lzma_index_decoder (byte by byte)" if bw else "lzma_index_buffer_decode", r, want), dict(repl, index=ib.hex()))
        # every Block on its own: lzma_block_header_decode + lzma_block_decoder, and the raw filter chain
        done = 0
        for si, s in enumerate(af['streams']):
            for bi, b in enumerate(s['blocks']):
                h0 = names.get("s%d.b%d.header.size" % (si, bi))
                ck = names.get("s%d.b%d.check" % (si, bi))
                dt = names.get("s%d.b%d.data" % (si, bi))
                if h0 is None or ck is None or dt is None:
                    continue
                hsz_stated = b['hsz']
                start = h0[0]
                end = ck[0] + ck[1]
                blk_index = done
                done += 1
                # what the model says about this Block: error inside it iff the stream model stopped there
                stopped_here = g['seq'].startswith("BLOCK") and g['si'] == si + 1 and g['bi'] == bi and not ("STREAM_END" in g['rets'])
                if not stopped_here and blk_index >= len(g['out']):
                    continue           # never reached by the stream decoder: no prediction
                hdr = data[start:start + hsz_stated]
                if len(hdr) < hsz_stated or hsz_stated < 8:
                    continue
                rest = data[start + hsz_stated:end]
                bret, bout, _, btin = D.block_decode(hdr, rest, s['check'], ignore_check=fl['ignoreCheck'])
                n += 1
                code = bret.split("_", 1)[1] if bret.startswith(("HDR_", "INIT_")) else bret
                if stopped_here:
                    if code not in g['rets'] and not (code == "BUF_ERROR" and "DATA_ERROR" in g['rets'] and g['seq'] == "BLOCK_CODE"):
                        viol("xz:block_decoder:ret:%s:%s->%s" % (g['seq'], "/".join(sorted(g['rets'])), bret),
                             "Block s%d.b%d alone: %s, model %s" % (si, bi, bret, sorted(g['rets'])), repl)
                else:
                    if bret != "STREAM_END" or bout != meaning[blk_index] or btin != len(rest):
                        viol("xz:block_decoder:valid:%s" % bret, "valid Block s%d.b%d alone: %s, %d bytes (expected %d), consumed %d of %d" % (
                            si, bi, bret, len(bout), len(meaning[blk_index]), btin, len(rest)), repl)
                    # raw decoder with the same chain on the Compressed Data
                    props = []
                    p0 = names.get("s%d.b%d.header.f0.props" % (si, bi))
                    for k in range(len(b['filters'])):
                        o, l = names["s%d.b%d.header.f%d.props" % (si, bi, k)]
                        props.append(data[o:o + l])
                    specs = filter_specs(lz, D, b, props)
                    for osl in ((None, 1, 2, 5) if len(b['filters']) > 1 else (None,)):
                        rret, rout, _, rtin = D.raw_decode(specs, data[dt[0]:dt[0] + dt[1]], out_slice=osl)
                        n += 1
                        if rret != "STREAM_END" or rout != meaning[blk_index]:
                            viol("xz:raw_decoder:valid:%s:%s" % (rret, "out%s" % osl if osl else "oneshot"), "raw decoder with chain %s, output space %s per call: %s, %d bytes (expected %d)%s" % (
                                [f['id'] for f in b['filters']], osl, rret, len(rout), len(meaning[blk_index]), "" if len(rout) != len(meaning[blk_index]) else " - bytes differ"), repl)
                    if len(b['filters']) > 1:
                        bret2, bout2, _, _ = D.block_decode(hdr, rest, s['check'], ignore_check=fl['ignoreCheck'], out_slice=1)
                        n += 1
                        if bret2 != "STREAM_END" or bout2 != meaning[blk_index]:
                            viol("xz:block_decoder:valid:out1:%s" % bret2, "valid Block s%d.b%d, one byte of output space per call: %s, %d bytes" % (si, bi, bret2, len(bout2)), repl)
                    # a convertible instruction at every distance 0..8 from the end of the data, for every BCJ filter of the chain
                    e = bycat.get(b['did'])
                    if len(b['filters']) > 1 and e is not None and D.unc_only(e) and gi % 2 == 0:
                        from harness.glue import filters as gflt
                        fl_ = [(D.FILTER_ID[f['id']], pr) for f, pr in zip(b['filters'], props)]
                        ntot = sum(c['n'] for c in e['chunks'])
                        for fid in sorted(set(x for x, _ in fl_[:-1] if x in D.INSN)):
                            for t in range(9):
                                want = D.bcj_tail_plain(ntot, fid, t, random.Random(gi * 131 + t))
                                enc = want
                                for x, pr in fl_[:-1]:
                                    enc = gflt.apply_nonlast(x, pr, enc, True)
                                plain = enc
                                for x, pr in reversed(fl_[:-1]):
                                    plain = gflt.apply_nonlast(x, pr, plain, False)
                                l2 = D.rebuild_unc(e, enc)
                                for osl in (1, 2):
                                    rret, rout, _, _ = D.raw_decode(specs, l2, out_slice=osl)
                                    n += 1
                                    if rret != "STREAM_END" or rout != plain:
                                        viol("xz:raw_decoder:bcj_tail:%s:out%d" % (rret, osl), "chain %s, %d bytes with a convertible instruction of filter %d ending %d bytes before the end, %d byte(s) of output space per call: %s, %s" % (
                                            [f['id'] for f in b['filters']], ntot, fid, t, osl, rret, "bytes differ at %s" % [i for i in range(min(len(rout), len(plain))) if rout[i] != plain[i]][:6] if len(rout) == len(plain) else "%d bytes" % len(rout)),
                                            dict(repl, lzma2=l2.hex(), expected=plain.hex()))
        if not sampled and "DATA_ERROR" in g['rets']:
            sampled = True
            ctx.sample(dict(kind="abstract_file_with_prediction", file=af, flags=fl, model_ret=sorted(g['rets']), bytes=data.hex()))
    return n

# ---------------------------------------------------------------------------------------------- (V) tests/files
def validate_test_files(ctx, D, lz, files, start=0, model=None):
    """tests/files/*.xz: the real decoders vs (a) the independent glue judge - verdict AND decoded bytes, (b) the TLA+ decoder
    model's verdict on the file lifted to an abstract file (model[name] = dict(rets, out dids, pos, size) or absent)."""
    from harness.glue import xz as gxz
    from harness.pydrv import c03lift as LF
    model = model or {}
    n = 0
    for idx in range(start, len(files)):
        path = files[idx]
        name = os.path.basename(path)
        ctx.begin(idx, dict(kind="testfile", file=name))
        data = open(path, "rb").read()
        g = gxz.parse(data, concatenated=True)
        ret, out, tells, tin = D.decode_stream(data, lz.CONCATENATED, out_cap=1 << 22)
        want = gxz.expected_ret(g.verdict)
        n += 1
        ctx.case(key=("testfile", name))
        ctx.add_traces(1)
        m = model.get(name)
        if m is not None:
            # (b) the model judged the lifted file
            if ret not in m['rets']:
                ctx.violation("testfile:model:ret:%s" % name, "%s: liblzma %s, the decoder model on the lifted file %s" % (name, ret, m['rets']), dict(kind="testfile", file=name))
            elif ret == "STREAM_END":
                try:
                    af, limit, outs, _ = LF.lift(data)
                    exp = b"".join(outs[d] for d in m['out'])
                except Exception as e:
                    raise MachineryError("lifting %s failed in the worker: %r" % (name, e))
                if out != exp or tin != m['pos'] or len(data) != m['size']:
                    ctx.violation("testfile:model:bytes:%s" % name, "%s: decoded bytes / consumed input differ from the model's prediction (%d/%d bytes, consumed %d/%d)" % (
                        name, len(out), len(exp), tin, m['pos']), dict(kind="testfile", file=name))
            n += 1
        if want is None:
            ctx.notes.append("tests/files/%s: glue cannot judge (%s)" % (name, g.verdict))
            continue
        if ret != want and not (g.verdict.startswith("error:lzma2") and ret == "BUF_ERROR"):
            ctx.violation("testfile:ret:%s" % name, "%s: liblzma %s, format judge %s (%s %s)" % (name, ret, want, g.verdict, g.detail),
                          dict(kind="testfile", file=name))
        elif ret == "STREAM_END" and out != g.output:
            ctx.violation("testfile:bytes:%s" % name, "%s: decoded bytes differ from the independent decoder (%d vs %d bytes)" % (name, len(out), len(g.output)),
                          dict(kind="testfile", file=name))
        elif ret != "STREAM_END" and not g.output.startswith(out) and not out.startswith(g.output):
            ctx.violation("testfile:partial:%s" % name, "%s: partial output before the error is not a prefix of the judge's" % name, dict(kind="testfile", file=name))
        # other entry points must agree with the stream decoder on real-world files
        bret, bout, _ = D.buffer_decode(data, lz.CONCATENATED, out_cap=1 << 22)
        if bret != {"STREAM_END": "OK", "BUF_ERROR": "DATA_ERROR"}.get(ret, ret) or (bret == "OK" and bout != out):
            ctx.violation("testfile:buffer_decode:%s" % name, "%s: lzma_stream_buffer_decode %s vs lzma_stream_decoder %s" % (name, bret, ret), dict(kind="testfile", file=name))
        mret, mout, _, _ = D.decode_stream(data, lz.CONCATENATED, mt=2, out_cap=1 << 22)
        if mret != ret or (ret == "STREAM_END" and mout != out):
            ctx.violation("testfile:mt:%s" % name, "%s: lzma_stream_decoder_mt %s vs lzma_stream_decoder %s" % (name, mret, ret), dict(kind="testfile", file=name))
        n += 2
    return n

# ---------------------------------------------------------------------------------------------- worker entry
def main():
    job = json.load(open(sys.argv[1]))
    from lib import build
    from harness.pydrv import c03drv as D, lz
    D.ensure_loaded(job["so"])
    with open(sys.argv[2], "a") as out:
        ctx = RecCtx(out, job["seed"], job["quick"])
        ph = job["phase"]
        a = job["args"]
        start = job.get("start", 0)
        if ph == "lz":
            n = replay_lz(ctx, D, lz, a["known"], a["raw"], a["rows"], start=start)
        elif ph == "vli":
            n = replay_vli(ctx, D, lz, a["bufs"], start=start)
        elif ph == "lzma2":
            n = replay_lzma2(ctx, D, lz, a["items"], start=start)
        elif ph == "xz":
            cat = D.build_catalogue(job["catseed"])
            n = replay_xz(ctx, D, lz, a["groups"], cat, start=start, base=a.get("base", 0))
        elif ph == "testfiles":
            n = validate_test_files(ctx, D, lz, a["files"], start=start, model=a.get("model"))
        else:
            raise SystemExit(77)
        ctx._w(dict(e="done", n=n))

if __name__ == "__main__":
    try:
        main()
    except MachineryError as e:
        print("MACHINERY: %s" % e)
        sys.exit(77)
