"""C16 helpers: serialise the abstract files of spec/FormatFiles.tla with harness/glue, map abstract
positions / output counts to concrete ones, and drive the real decoders exactly like spec/FormatDriver.tla.

Nothing here decides the property: expectations come from the TLC-generated plans."""
import random, struct, hashlib
from harness.pydrv import lz
from harness.glue import alone, lzip, xz, lzma as glz, crc as gcrc

MEMLIMIT = 48 << 20          # spec constant MemDictLimbHi = 752 (47 MiB): no generated size lies in between
FLAGBITS = {"TELL_NO_CHECK": lz.TELL_NO_CHECK, "TELL_UNSUPPORTED_CHECK": lz.TELL_UNSUPPORTED_CHECK,
            "TELL_ANY_CHECK": lz.TELL_ANY_CHECK, "CONCATENATED": lz.CONCATENATED, "IGNORE_CHECK": lz.IGNORE_CHECK}
EXACT = {"b", "fc", "fd", "fm", "xh", "xf"}
REGION = {"pi": "P", "pd": "P", "pm": "P", "pf": "P", "xd": "X"}
USZ = {"m38": (1 << 38) - 1, "e38": 1 << 38, "top": 1 << 63, "umax1": (1 << 64) - 2}

def fd_key(fd):
    return hashlib.md5(repr(sorted_json(fd)).encode()).hexdigest()

def sorted_json(o):
    if isinstance(o, dict):
        return sorted((k, sorted_json(v)) for k, v in o.items())
    if isinstance(o, list):
        return [sorted_json(x) for x in o]
    return o

def _data(rng, n, literal_only=False, dict_size=4096):
    """-> (symbols, bytes) for an abstract unit with n data bytes (0 = empty, otherwise >= 3 real bytes)."""
    if n == 0:
        return [], b""
    while True:
        if literal_only:
            syms = [('lit', rng.randrange(256)) for _ in range(rng.randrange(3, 20))]
        else:
            syms, _, _ = glz.random_symbols(rng, rng.randrange(2, 14), dict_size=dict_size, max_out=rng.randrange(3, 70))
        d = glz.expand(syms)
        if len(d) >= 3:
            return syms, d

def w32(limbs):
    return limbs[0] + (limbs[1] << 16)

class Ser:
    """Concrete file: data, segs [(cls 'E'|'P'|'X', bytes)], units [(n_abstract, data bytes)], per-format extras."""
    pass

def serialise(fd, seed):
    rng = random.Random("%s/%s" % (seed, fd_key(fd)))
    S = Ser(); S.segs = []; S.units = []; S.fd = fd
    if fd["fmt"] == "alone":
        props = fd["props"]; dict_size = w32(fd["dict"])
        ok = props <= 224
        pb = props // 45; lp = (props - pb * 45) // 9; lc = props - pb * 45 - lp * 9
        if not ok or lc + lp > 4 or lc > 8:
            lc, lp, pb = 3, 0, 2
        syms, d = _data(rng, fd["n"], literal_only=dict_size < 4096)
        u = fd["usz"]
        usize = {"unknown": None, "exact": len(d), "zero": 0, "small": len(d) - 1, "big": len(d) + 1}.get(u, USZ.get(u))
        f = alone.build(symbols=syms, lc=lc, lp=lp, pb=pb, dict_size=1 << 16, usize=usize, eopm=bool(fd["eopm"]),
                        props=props, header_dict_size=dict_size)
        S.segs = [("E", f[:13]), ("P", f[13:]), ("E", b"X" * fd["trail"])]
        S.units = [(fd["n"], d)]
        S.usize = usize; S.lc, S.lp, S.pb = lc, lp, pb; S.dict_size = dict_size
    elif fd["fmt"] == "lzip":
        for m in fd["mem"]:
            syms, d = _data(rng, m["n"])
            ver = m["ver"]
            base = lzip.build_member(symbols=syms, version=0 if ver == 0 else 1, ds_byte=m["ds"], version_byte=ver,
                                     magic=bytes(m["magic"]))
            real_crc = gcrc.crc32(d)
            mem = lzip.build_member(symbols=syms, version=0 if ver == 0 else 1, ds_byte=m["ds"], version_byte=ver,
                                    magic=bytes(m["magic"]), crc32=(real_crc ^ (1 << rng.randrange(32))) if m["crc"] else real_crc,
                                    data_size=len(d) + m["dsz"], member_size=len(base) + m["msz"])
            assert len(mem) == len(base)
            fs = 12 if ver == 0 else 20
            S.segs += [("E", mem[:6]), ("P", mem[6:-fs]), ("E", mem[-fs:])]
            S.units.append((m["n"], d))
        S.segs.append(("E", bytes(fd["trail"])))
    elif fd["fmt"] == "xz":
        for s in fd["str"]:
            d = bytes(rng.randrange(256) for _ in range(rng.randrange(3, 60))) if s["n"] else b""
            cid = {0: 0, 1: 1, 2: 2}[s["check"]]
            blk = dict(uncompressed=d)
            if s["cbad"]:
                good = gcrc.check_bytes(cid, d)
                bad = bytearray(good); bad[rng.randrange(len(bad))] ^= 1 << rng.randrange(8)
                blk["check"] = bytes(bad)
            st = dict(check=cid, blocks=[blk], padding=s["pad"])
            if s["hdr"] == 1:
                st["header"] = dict(magic=b"\xfd7zX" + bytes([rng.choice([0x59, 0x5B, 0x00])]) + b"\x00")
            f, _ = xz.build([st])
            body = f[12:len(f) - 12 - s["pad"]]
            S.segs += [("E", f[:12]), ("X", body), ("E", f[len(f) - 12 - s["pad"]:len(f) - s["pad"]]), ("E", f[len(f) - s["pad"]:])]
            S.units.append((s["n"], d))
        S.segs.append(("E", bytes(fd["trail"])))
    S.segs = [(c, b) for c, b in S.segs if len(b) or c != "E"]
    S.full = b"".join(b for _, b in S.segs)
    return S

def runs_of(kinds):
    """abstract runs [(cls, length)] from the token kinds of the uncut file: 'E' byte-exact tokens,
    'P' an LZMA1 payload, 'X' the Blocks + Index of an .xz Stream"""
    out = []
    for k in kinds:
        c = "E" if k in EXACT else REGION[k]
        if out and out[-1][0] == c:
            out[-1][1] += 1
        else:
            out.append([c, 1])
    return [(c, n) for c, n in out]

class Layout:
    """correspondence of abstract token positions and concrete byte offsets"""
    def __init__(self, kinds, S, cut):
        self.runs = runs_of(kinds)
        segs = S.segs
        # merge adjacent concrete E segments to mirror the abstract runs
        merged = []
        for c, b in segs:
            if merged and merged[-1][0] == "E" and c == "E":
                merged[-1] = ("E", merged[-1][1] + b)
            else:
                merged.append((c, b))
        self.ok = len(merged) == len(self.runs) and all(
            rc == sc and (rc != "E" or rl == len(sb)) for (rc, rl), (sc, sb) in zip(self.runs, merged))
        self.segs = merged
        self.alen = sum(n for _, n in self.runs)
        self.clen = sum(len(b) for _, b in merged)
        self.acut = self.alen - cut
        self.ccut = self.a2c(self.acut, inside=True) if cut else self.clen
    def a2c(self, p, inside=False):
        """concrete offset of abstract position p; None if p is strictly inside an abstract region
        (inside=True: pick a proportional point strictly inside instead)"""
        a = c = 0
        for (cls, n), (_, b) in zip(self.runs, self.segs):
            if p <= a + n:
                if cls == "E" or p == a + n or p == a:
                    return c + (p - a) if cls == "E" else (c if p == a else c + len(b))
                if not inside:
                    return None
                return c + max(1, min(len(b) - 1, (p - a) * len(b) // n))
            a += n; c += len(b)
        return c if p == a else None

def map_out(S, nout):
    """abstract output count -> concrete bytes (None if not at a mappable point): whole units, or a unit
    without its last byte (abstract n - 1)"""
    out = b""
    for n, d in S.units:
        if n == 0:
            continue
        if nout >= n:
            out += d; nout -= n
            continue
        if nout == 0:
            return out
        if nout == n - 1:
            return out + d[:-1]
        return None
    return out if nout == 0 else None

def all_data(S):
    return b"".join(d for _, d in S.units)

# ------------------------------------------------------------------ the driver (spec/FormatDriver.tla)
def make_coder(api, flags, memlimit=MEMLIMIT, coder=None):
    """coder given: call the initialisation function again on that handle (no lzma_end in between)"""
    c = coder if coder is not None else lz.Coder()
    fl = 0
    for f in flags:
        fl |= FLAGBITS[f]
    if api == "alone":
        r = c.init("lzma_alone_decoder", memlimit)
    elif api == "lzip":
        r = c.init("lzma_lzip_decoder", memlimit, fl)
    elif api == "stream":
        r = c.init("lzma_stream_decoder", memlimit, fl)
    elif api == "auto":
        r = c.init("lzma_auto_decoder", memlimit, fl)
    elif api == "stream_mt":
        import ctypes as C
        mt = lz.Mt(); mt.flags = fl; mt.threads = 2; mt.timeout = 0
        mt.memlimit_threading = memlimit; mt.memlimit_stop = memlimit
        c.keep_mt = mt
        r = c.init("lzma_stream_decoder_mt", C.byref(mt))
    else:
        raise ValueError(api)
    return c, r

CONT = (lz.OK, lz.NO_CHECK, lz.UNSUPPORTED_CHECK, lz.GET_CHECK)

def drive(api, flags, data, pieces, mode, out_cap=None, max_calls=100000, coder=None):
    """pieces: sizes of the pieces of new input (the rest is offered when the list is exhausted).
    mode 'finish': LZMA_FINISH together with the last piece; 'rtf': LZMA_RUN until everything is consumed.
    -> dict(rets=[names of non-OK], out, total_in, calls, ok (accounting + guards))"""
    c, r = make_coder(api, flags, coder=coder)
    if r != lz.OK:
        return dict(rets=["INIT_" + lz.retname(r)], out=b"", total_in=0, calls=0, ok=True)
    s = c.strm
    n = len(data)
    ib = lz.Buf(n, data)
    cap = out_cap or (1 << 14)
    ob = lz.Buf(cap)
    offered = 0; tin = 0; op = 0
    rets = []; calls = 0; ok = True
    it = iter(pieces)
    while calls < max_calls:
        if offered < n:
            try:
                k = next(it)
            except StopIteration:
                k = n - offered
            offered = min(n, offered + max(1, k))
        action = lz.FINISH if offered == n and (mode == "finish" or offered == tin) else lz.RUN
        s.next_in = ib.addr + tin; s.avail_in = offered - tin
        s.next_out = ob.addr + op; s.avail_out = cap - op
        b_in, b_out = s.avail_in, s.avail_out
        ret = c.code_raw(action)
        calls += 1
        ui = b_in - s.avail_in; uo = b_out - s.avail_out
        if ui < 0 or uo < 0 or s.total_in != tin + ui or s.total_out != op + uo:
            ok = False
        tin += ui; op += uo
        if ret != lz.OK:
            rets.append(lz.retname(ret))
        if ret not in CONT:
            break
        if op >= cap:
            ok = False; break
    if not (ib.guards_ok() and ob.guards_ok()) or ib.data() != data:
        ok = False
    out = ob.data(op)
    if coder is None:
        c.end()
    return dict(rets=rets, out=out, total_in=tin, calls=calls, ok=ok)
