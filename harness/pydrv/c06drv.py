"""C06 / C04 driver: executes slicing plans on real liblzma coders and stateless parsers.

Runs as a subprocess of checks/c06.py / checks/c04.py (python3 -m harness.pydrv.c06drv JOB OUT) under the
ASan+UBSan build, so that a sanitizer abort / failed assertion / endless loop becomes a finding
("crash:<entry>:<class>", "hang:...") instead of killing the check.  The file OUT.cur always names the subject
being executed.

A *subject* = one entry point + constructor arguments + one input + a list of plans.  For every plan the
observation (output bytes, final status, total_in [, decoded lzma_index]) is compared with the observation of
the one-shot run of the same subject (the prediction of spec/Slicing.tla: SliceIndependent); selected runs are
recorded call by call for spec/TraceSlicing.tla.
"""
import ctypes as C, hashlib, json, os, signal, sys, time

from . import lz

UNKNOWN = lz.VLI_UNKNOWN
STR_ALL_FILTERS, STR_ENCODER, STR_DECODER, STR_GETOPT_LONG, STR_NO_SPACES = 0x01, 0x10, 0x20, 0x40, 0x80
FID = {"lzma1": lz.FILTER_LZMA1, "lzma1ext": lz.FILTER_LZMA1EXT, "lzma2": lz.FILTER_LZMA2, "delta": lz.FILTER_DELTA,
       "x86": lz.FILTER_X86, "powerpc": lz.FILTER_POWERPC, "ia64": lz.FILTER_IA64, "arm": lz.FILTER_ARM,
       "armthumb": lz.FILTER_ARMTHUMB, "sparc": lz.FILTER_SPARC, "arm64": lz.FILTER_ARM64, "riscv": lz.FILTER_RISCV}
BCJ_NAMES = ("x86", "powerpc", "ia64", "arm", "armthumb", "sparc", "arm64", "riscv")
STARVE_BOUND = {"stream_decoder_mt": 8, "stream_encoder_mt": 8}


def ok_bound_for(entry, args):
    """How many consecutive LZMA_OK-without-progress calls are legitimate: none beyond the first for single-threaded
    coders (lzma_code() turns the second into LZMA_BUF_ERROR); a threaded coder with a timeout may report 'nothing yet'
    (LZMA_TIMED_OUT -> LZMA_OK) as long as its workers are busy."""
    if entry in STARVE_BOUND:
        return 100000 if (args or {}).get("timeout") else 8
    return 2


def dig(b):
    return "%d:%s" % (len(b), hashlib.sha1(b).hexdigest()[:20])


# ------------------------------------------------------------------------------------------------ filters
def lzma_options(o):
    kw = {k: o[k] for k in ("dict_size", "lc", "lp", "pb", "mode", "nice_len", "mf", "depth") if k in o}
    if o.get("preset_dict"):
        kw["preset_dict"] = bytes.fromhex(o["preset_dict"])
    opt = lz.lzma_opts(o.get("preset", 0), **kw)
    if "usize" in o or "ext_flags" in o:
        u = o.get("usize", UNKNOWN)
        opt.ext_flags = o.get("ext_flags", 0)
        opt.ext_size_low = u & 0xFFFFFFFF
        opt.ext_size_high = u >> 32
    return opt


def build_filters(spec):
    items = []
    for name, o in spec:
        o = o or {}
        if name in ("lzma1", "lzma2", "lzma1ext"):
            items.append((FID[name], lzma_options(o)))
        elif name == "delta":
            d = lz.OptDelta(); d.type = 0; d.dist = o.get("dist", 1)
            items.append((FID[name], d))
        else:
            if o.get("start_offset"):
                b = lz.OptBcj(); b.start_offset = o["start_offset"]
                items.append((FID[name], b))
            else:
                items.append((FID[name], None))
    return lz.make_filters(items)


_libc = C.CDLL(None)
_libc.free.argtypes = [C.c_void_p]
_libc.malloc.restype = C.c_void_p
_libc.malloc.argtypes = [C.c_size_t]


class Exact:
    """A heap block of exactly len(data) bytes (malloc of the preloaded ASan runtime: any access past it is reported)."""
    def __init__(self, data=b"", size=None):
        self.size = len(data) if size is None else size
        self.addr = _libc.malloc(max(self.size, 1))
        if data:
            C.memmove(self.addr, bytes(data), len(data))
        self.orig = bytes(data)

    def data(self, n=None):
        return C.string_at(self.addr, self.size if n is None else n)

    def guards_ok(self):
        return True

    def free(self):
        if self.addr:
            _libc.free(self.addr)
            self.addr = None


def filters_via_string(arr):
    """lzma_str_to_filters(lzma_str_from_filters(chain)): the textual form of the same chain."""
    L = lz.L()
    sp = C.c_void_p()
    r = L.lzma_str_from_filters(C.byref(sp), arr, STR_ENCODER, None)
    if r != lz.OK:
        raise RuntimeError("lzma_str_from_filters -> %s" % lz.retname(r))
    text = C.string_at(sp.value)
    _libc.free(sp)
    out = (lz.Filter * 5)()
    epos = C.c_int(0)
    tbuf = C.create_string_buffer(text)
    L.lzma_str_to_filters.argtypes = [C.c_void_p] + list(L.lzma_str_to_filters.argtypes[1:])
    msg = L.lzma_str_to_filters(C.addressof(tbuf), C.byref(epos), out, 0, None)
    if msg is not None:
        raise RuntimeError("lzma_str_to_filters(%r) -> %r at %d" % (text, msg, epos.value))
    out._text = text.decode()
    out._owned = True
    return out


def index_snapshot(idx):
    L = lz.L()
    it = lz.IndexIter()
    L.lzma_index_iter_init(C.byref(it), idx)
    recs = []
    while not L.lzma_index_iter_next(C.byref(it), lz.ITER_ANY):
        recs.append((it.stream.number, it.stream.block_count, it.stream.compressed_offset, it.stream.padding,
                     it.block.number_in_file, it.block.compressed_file_offset, it.block.uncompressed_file_offset,
                     it.block.unpadded_size, it.block.uncompressed_size))
        if len(recs) > 20000:
            break
    return repr((L.lzma_index_stream_count(idx), L.lzma_index_block_count(idx), L.lzma_index_file_size(idx),
                 L.lzma_index_uncompressed_size(idx), L.lzma_index_checks(idx), tuple(recs))).encode()


# ------------------------------------------------------------------------------------------------ constructors
class Made:
    """A constructed coder + what lzma_code() is to be fed with."""
    def __init__(self):
        self.c = None; self.ret = lz.OK; self.data = b""; self.keep = []; self.index_out = None; self.index_in = None
        self.owned_filters = None


def make_with_history(entry, a, data, alloc=None, prior=None):
    """The same lzma_stream is first used for the `prior` codings (each [entry, args, data hex], run to their end in one
    shot) and then re-initialised WITHOUT lzma_end() for the coder under test: liblzma reuses the coder structures,
    dictionaries and buffer caches, and the result must not depend on that history."""
    c = lz.Coder(alloc)
    ap = alloc.ptr() if alloc is not None else None
    for pe, pa, pd in (prior or []):
        pdata = bytes.fromhex(pd) if isinstance(pd, str) else pd
        pm = make(pe, pa, pdata, alloc, coder=c)
        if pm.ret == lz.OK:
            pb = Bufs(pm.data, max(8192, 16 * len(pm.data) + 8192))
            drive(pe, pm, pb, [], [], 0, 0, ok_bound=ok_bound_for(pe, pa))
        L = lz.L()
        if pm.index_out is not None and pm.index_out.value:
            L.lzma_index_end(pm.index_out, ap)
        if pm.owned_filters is not None:
            L.lzma_filters_free(pm.owned_filters, None)
        c.prior_keep = getattr(c, "prior_keep", []) + [pm]      # e.g. the lzma_index of an index encoder must outlive it
    m = make(entry, a, data, alloc, coder=c)
    return m


def end_history(m):
    L = lz.L()
    for pm in getattr(m.c, "prior_keep", []):
        if pm.index_in:
            L.lzma_index_end(pm.index_in, None)
    m.c.prior_keep = []


def make(entry, a, data, alloc=None, coder=None):
    L = lz.L()
    m = Made()
    c = coder if coder is not None else lz.Coder(alloc)
    m.c = c
    m.data = data
    ap = alloc.ptr() if alloc is not None else None
    ML = a.get("memlimit", lz.UINT64_MAX)

    def filt():
        f = build_filters(a["filters"])
        m.keep.append(f)
        if a.get("via_string"):
            g = filters_via_string(f)
            m.owned_filters = g
            return g
        return f
    if entry == "stream_decoder":
        m.ret = c.init("lzma_stream_decoder", ML, a.get("flags", 0))
    elif entry in ("stream_decoder_mt", "stream_encoder_mt"):
        mt = lz.Mt(); mt.threads = a.get("threads", 2); mt.flags = a.get("flags", 0); mt.timeout = a.get("timeout", 0)
        m.keep.append(mt)
        if entry == "stream_decoder_mt":
            mt.memlimit_threading = a.get("memlimit_threading", lz.UINT64_MAX); mt.memlimit_stop = ML
        else:
            mt.block_size = a.get("block_size", 0); mt.check = a.get("check", lz.CHECK_CRC32); mt.preset = a.get("preset", 0)
            if a.get("filters"):
                mt.filters = C.cast(filt(), C.POINTER(lz.Filter))
        m.ret = c.init("lzma_" + entry, C.byref(mt))
    elif entry == "auto_decoder":
        m.ret = c.init("lzma_auto_decoder", ML, a.get("flags", 0))
    elif entry == "alone_decoder":
        m.ret = c.init("lzma_alone_decoder", ML)
    elif entry == "lzip_decoder":
        m.ret = c.init("lzma_lzip_decoder", ML, a.get("flags", 0))
    elif entry == "microlzma_decoder":
        m.ret = c.init("lzma_microlzma_decoder", a["comp_size"], a["uncomp_size"], a.get("exact", 1), a.get("dict_size", 1 << 16))
    elif entry == "raw_decoder":
        m.ret = c.init("lzma_raw_decoder", filt())
    elif entry == "raw_encoder":
        m.ret = c.init("lzma_raw_encoder", filt())
    elif entry == "block_decoder":
        hl = a["header_len"]
        hdr = data[:hl]
        b = lz.Block(); b.version = 1; b.check = a.get("check", lz.CHECK_CRC32)
        f = (lz.Filter * 5)()
        b.filters = C.cast(f, C.POINTER(lz.Filter))
        b.header_size = hl
        hb = C.create_string_buffer(bytes(hdr), max(len(hdr), 1))
        m.keep += [b, f, hb]
        m.ret = L.lzma_block_header_decode(C.byref(b), ap, hb)
        m.data = data[hl:]
        if m.ret == lz.OK:
            m.ret = c.init("lzma_block_decoder", C.byref(b))
            L.lzma_filters_free(b.filters, ap)
    elif entry == "block_encoder":
        b = lz.Block(); b.version = 1; b.check = a.get("check", lz.CHECK_CRC32)
        f = filt(); b.filters = C.cast(f, C.POINTER(lz.Filter))
        b.compressed_size = UNKNOWN; b.uncompressed_size = UNKNOWN
        m.keep.append(b)
        m.ret = L.lzma_block_header_size(C.byref(b))
        if m.ret == lz.OK:
            m.ret = c.init("lzma_block_encoder", C.byref(b))
    elif entry == "index_decoder":
        m.index_out = C.c_void_p()
        m.ret = c.init("lzma_index_decoder", C.byref(m.index_out), ML)
    elif entry == "file_info_decoder":
        m.index_out = C.c_void_p()
        m.ret = c.init("lzma_file_info_decoder", C.byref(m.index_out), ML, a.get("file_size", len(data)))
    elif entry == "stream_encoder":
        m.ret = c.init("lzma_stream_encoder", filt(), a.get("check", lz.CHECK_CRC32))
    elif entry == "easy_encoder":
        m.ret = c.init("lzma_easy_encoder", a.get("preset", 0), a.get("check", lz.CHECK_CRC64))
    elif entry in ("alone_encoder", "microlzma_encoder"):
        o = lzma_options(a.get("lzma", {}))
        m.keep.append(o)
        m.ret = c.init("lzma_" + entry, C.byref(o))
    elif entry == "index_encoder":
        idx = L.lzma_index_init(None)
        for u, n in a.get("records", []):
            if L.lzma_index_append(idx, None, u, n) != lz.OK:
                raise RuntimeError("bad index record")
        m.index_in = idx
        m.ret = c.init("lzma_index_encoder", idx)
    else:
        raise ValueError(entry)
    return m


def unmake(m, alloc=None):
    L = lz.L()
    ap = alloc.ptr() if alloc is not None else None
    m.c.end()
    end_history(m)
    if m.index_out is not None and m.index_out.value:
        L.lzma_index_end(m.index_out, ap)
        m.index_out.value = None
    if m.index_in:
        L.lzma_index_end(m.index_in, None)
    if m.owned_filters is not None:
        L.lzma_filters_free(m.owned_filters, None)


# ------------------------------------------------------------------------------------------------ the runner
class Bufs:
    def __init__(self, data, cap):
        self.n = len(data); self.cap = cap; self.data = bytes(data)
        self.ib = lz.Buf(self.n, data); self.ob = lz.Buf(cap)

    def intact(self):
        return self.ib.guards_ok() and self.ob.guards_ok() and self.ib.data() == self.data


def drive(entry, m, bufs, ins, outs, irep=0, orep=0, rec=None, tail=0, xw=False, pause=0.0, ok_bound=None):
    """Perform the calls of one plan.  ins: list of chunk sizes; ("S", k) = k starving calls (nothing new, no output
    space).  outs: list of grants.  After the lists: irep bytes per call (0 = all the rest) / orep bytes (0 = all).
    Returns dict(ret, op, tin, calls, problems)."""
    s = m.c.strm
    n, cap = bufs.n, bufs.cap
    iaddr, oaddr = bufs.ib.addr, bufs.ob.addr
    ip = op = fed = 0
    ii = oi = 0
    calls = 0
    limit = 4 * (n + cap) + 20000
    problems = []
    starving = 0
    starve_told = True
    bound = STARVE_BOUND.get(entry, 4)
    code = lz.L().lzma_code
    sref = C.byref(s)
    ret = lz.OK
    terminal = False
    final = None         # (ret, total_in, op) at the terminal call; the starving tail calls come after it
    extra = 0
    seeks = 0
    # Starve!StallBounded: consecutive calls that return LZMA_OK without touching either buffer, whatever the caller
    # offered (also with input AND output space available: a coder stopped by an internal limit).  lzma_code() turns the
    # second one into LZMA_BUF_ERROR; only a threaded coder waiting with a timeout may legitimately repeat LZMA_OK.
    ok_stall = 0
    stall_t0 = 0.0
    if ok_bound is None:
        ok_bound = 2 if entry not in STARVE_BOUND else 8
    notif_stall = 0
    notes = []           # informational return codes (LZMA_NO_CHECK / UNSUPPORTED_CHECK / GET_CHECK) and where they came
    while True:
        if terminal:
            if extra >= tail:
                break
            extra += 1
            k = 0; g = 0
        elif starving > 0:
            starving -= 1
            k = 0; g = 0
        else:
            if ii < len(ins):
                k = ins[ii]; ii += 1
                if not isinstance(k, int):
                    starving = k[1]
                    starve_told = False
                    continue
            elif irep:
                k = irep
            else:
                k = n
            if oi < len(outs):
                g = outs[oi]; oi += 1
            elif orep:
                g = orep
            else:
                g = cap
        fed = min(n, fed + k)
        avail = fed - ip
        g = min(g, cap - op)
        action = lz.FINISH if fed == n else lz.RUN
        if xw:
            # exact windows: this call's input and output live in heap blocks of exactly avail_in / avail_out bytes
            wi = Exact(C.string_at(iaddr + ip, avail)); wo = Exact(size=g)
            base_i, base_o = wi.addr, wo.addr
        else:
            base_i, base_o = iaddr + ip, oaddr + op
        s.next_in = base_i; s.avail_in = avail
        s.next_out = base_o; s.avail_out = g
        ti, to = s.total_in, s.total_out
        if pause:
            time.sleep(pause)       # input arriving over time: lets worker threads run between the calls
        ret = code(sref, action)
        calls += 1
        uin = avail - s.avail_in; uout = g - s.avail_out
        if xw:
            if 0 < uout <= g:
                C.memmove(oaddr + op, wo.addr, uout)
            if wi.data() != wi.orig:
                problems.append("guard")
            wi.free(); wo.free()
        if uin < 0 or uin > avail or uout < 0 or uout > g or s.total_in != ti + uin or s.total_out != to + uout \
           or (s.next_in or 0) != base_i + uin or (s.next_out or 0) != base_o + uout:
            problems.append("accounting")
            uin = max(0, min(uin, avail)); uout = max(0, min(uout, g))
        ip += uin; op += uout
        if ret > lz.SEEK_NEEDED or ret < 0:
            problems.append("internal:%d" % ret)
        if rec is not None:
            rec.append({"e": "Call", "action": lz.ACT[action], "ain": avail, "aout": g, "ret": lz.retname(ret),
                        "uin": uin, "uout": uout, "tin": s.total_in, "tout": s.total_out})
        if terminal:
            continue
        if not starve_told and (ret == lz.BUF_ERROR or ret not in (lz.OK,)):
            starve_told = True
        if starving == 0 and not starve_told:
            problems.append("starve")
            starve_told = True
        if uin or uout:
            notif_stall = 0
        ok_stall = ok_stall + 1 if (ret == lz.OK and uin == 0 and uout == 0) else 0
        if ok_stall == 1:
            stall_t0 = time.time()
        # (a threaded coder with a timeout: "nothing yet" for at most 15 s of wall time)
        if (ok_stall >= ok_bound or (ok_stall > 50 and time.time() - stall_t0 > 15)) and not terminal:
            problems.append("starve")
            break
        if ret == lz.OK:
            if calls > limit:
                problems.append("hang")
                break
            continue
        if ret in (lz.NO_CHECK, lz.UNSUPPORTED_CHECK, lz.GET_CHECK):
            notes.append("%s@%d" % (lz.retname(ret), s.total_in))
            # a notification is given once, then progress must resume (Starve.tla: StallBounded)
            notif_stall = notif_stall + 1 if (uin == 0 and uout == 0) else 0
            if notif_stall >= bound:
                problems.append("starve")
                break
            if calls > limit:
                problems.append("hang")
                break
            continue
        if ret == lz.BUF_ERROR:
            if fed == n and g > 0:
                terminal = True        # everything offered, room left, still no progress
                final = (ret, s.total_in, op)
            elif calls > limit:
                problems.append("hang")
                break
            continue
        if ret == lz.SEEK_NEEDED:
            seeks += 1
            ip = fed = min(n, s.seek_pos)
            if calls > limit:
                problems.append("hang")
                break
            continue
        terminal = True
        final = (ret, s.total_in, op)
    if final is None:
        final = (ret, s.total_in, op)
    return dict(ret=final[0], op=final[2], tin=final[1], calls=calls, problems=problems, notes=notes, seeks=seeks)


def observe(m, bufs, r):
    out = bufs.ob.data(r["op"])
    if m.index_out is not None and m.index_out.value:
        out += index_snapshot(m.index_out)
    if r["notes"]:
        out += ("|" + ",".join(r["notes"])).encode()
    return dict(ret=lz.retname(r["ret"]), tin=r["tin"], olen=len(out), dig=dig(out), seeks=r.get("seeks", 0))


def expand_plan(p, n, olen):
    """plan descriptor -> (ins, outs, irep, orep)."""
    k = p["k"]
    if k == "oneshot":
        return [], [], 0, 0
    if k == "two":
        return [p["at"]], [], 0, 0
    if k == "three":
        return [p["a"], p["b"] - p["a"]], [], 0, 0
    if k == "byte1":
        # one byte at a time in and out, with an empty call before every z-th byte
        z = p.get("z", 0)
        if not z:
            return [], [], 1, 1
        ins = []
        for i in range(n):
            if i % z == 0:
                ins.append(0)
            ins.append(1)
        return ins, [], 1, 1
    if k == "in1":
        return [], [], 1, 0
    if k == "out1":
        return [], [], 0, 1
    if k == "lists":
        ins = [tuple(x) if isinstance(x, list) else x for x in p["ins"]]
        return ins, p.get("outs", []), p.get("irep", 0), p.get("orep", 0)
    if k == "starve":
        return [p["at"], ("S", p.get("n", 6))], [], 0, 0
    if k == "pieces":
        return [], [], p["size"], 0
    if k == "tail":
        # bulk in one call, the last `tail` bytes one at a time except the very last one, then starving calls
        # (stalled pipe: LZMA_RUN with nothing new), then the rest
        t = min(p["tail"], n)
        return [n - t] + [1] * max(0, t - 1) + [("S", p.get("n", 10))], [], 0, 0
    raise ValueError(k)


def class_of_mismatch(one, o, exempt):
    """Which components of the observation differ: 'ret', 'total_in', 'out' joined by '+', or None."""
    d = []
    if o["ret"] != one["ret"]:
        d.append("ret")
    if o["tin"] != one["tin"]:
        d.append("total_in")
    if not exempt and (o["olen"] != one["olen"] or o["dig"] != one["dig"]):
        d.append("out")
    return "+".join(d) or None


def run_subject(sub, budget):
    """Execute all plans of one subject.  Returns result dict."""
    entry = sub["entry"]; args = sub.get("args", {})
    data = bytes.fromhex(sub["data"])
    exempt = bool(sub.get("exempt"))
    use_alloc = bool(sub.get("alloc"))
    res = dict(id=sub["id"], entry=entry, cls=sub["cls"], runs=0, calls=0, mism=[], traces=[], problems=[], one=None)
    if args.get("memlimit") in ("exact", "exact-1"):
        # memory limit = what the decoder reports to need for this input (probe run with no limit), or one byte less
        pa = dict(args); pa["memlimit"] = lz.UINT64_MAX
        pm = make(entry, pa, data)
        need = 0
        if pm.ret == lz.OK:
            pb = Bufs(pm.data, sub.get("cap") or 65536)
            drive(entry, pm, pb, [], [], 0, 0)
            need = lz.L().lzma_memusage(C.byref(pm.c.strm))
        unmake(pm)
        args = dict(args)
        args["memlimit"] = max(1, need - (1 if sub["args"]["memlimit"] == "exact-1" else 0))
        res["memlimit"] = args["memlimit"]

    def one_run(plan, rec=None, tail=0, cap=None, one=None):
        alloc = lz.CountingAllocator() if use_alloc else None
        m = make_with_history(entry, args, data, alloc, sub.get("prior"))
        if m.ret != lz.OK:
            unmake(m, alloc)
            return dict(ret="INIT_" + lz.retname(m.ret), tin=0, olen=0, dig=dig(b"")), []
        bufs = Bufs(m.data, cap if cap is not None else (sub.get("cap") or max(4096, 12 * len(m.data) + 4096)))
        ins, outs, irep, orep = expand_plan(plan, bufs.n, one["olen"] if one else 0)
        r = drive(entry, m, bufs, ins, outs, irep, orep, rec, tail, xw=bool(plan.get("xw")), pause=plan.get("pause", 0.0),
                  ok_bound=ok_bound_for(entry, args))
        o = observe(m, bufs, r)
        probs = list(r["problems"])
        if not bufs.intact():
            probs.append("guard")
        unmake(m, alloc)
        if alloc is not None:
            if alloc.live:
                probs.append("leak")
            if alloc.errors:
                probs.append("badfree")
        res["runs"] += 1; res["calls"] += r["calls"]
        o["_full"] = bufs.ob.data(r["op"]) if sub.get("want_output") else None
        return o, probs

    def one_run_full(plan):
        m = make(entry, args, data)
        bufs = Bufs(m.data, sub.get("cap") or max(4096, 12 * len(m.data) + 4096))
        r = drive(entry, m, bufs, [], [], 0, 0)
        out = bufs.ob.data(r["op"])
        unmake(m)
        return out, r

    one, probs = one_run({"k": "oneshot"})
    one.pop("_full", None)
    res["one"] = one
    for p in probs:
        res["problems"].append(dict(what=p, plan={"k": "oneshot"}))
    if one["ret"].startswith("INIT_"):
        return res
    if sub.get("roundtrip") and one["ret"] == "STREAM_END":
        # the one-shot output must decode back to the input (sliced outputs are compared with it byte for byte)
        o1, _ = one_run_full({"k": "oneshot"})
        dec_entry, dec_args = sub["roundtrip"]
        dm = make(dec_entry, dec_args, o1)
        if dm.ret == lz.OK:
            db = Bufs(dm.data, len(data) + 4096)
            dr = drive(dec_entry, dm, db, [], [], 0, 0)
            if dr["ret"] != lz.STREAM_END or db.ob.data(dr["op"]) != data:
                res["problems"].append(dict(what="roundtrip", plan={"k": "oneshot"}, obs=dict(ret=lz.retname(dr["ret"]), olen=dr["op"])))
        else:
            res["problems"].append(dict(what="roundtrip", plan={"k": "oneshot"}, obs=dict(ret="INIT_" + lz.retname(dm.ret))))
        unmake(dm)
    cap = one["olen"] + 4096
    exempt = exempt and one["ret"] != "STREAM_END"      # the exception is for REJECTED input behind a BCJ filter only
    nrec = 0
    for plan in sub["plans"]:
        reps = [plan]
        if plan["k"] == "every2":
            reps = [{"k": "two", "at": k} for k in range(plan.get("from", 0), plan["to"] + 1)]
        if plan["k"] == "around_stop":
            # every two-piece split next to the place where the one-shot run stopped consuming (error position / end)
            nn = len(data) - (args.get("header_len", 0) if entry == "block_decoder" else 0)
            reps = [{"k": "two", "at": k} for k in range(max(0, one["tin"] - plan.get("w", 6)), min(nn, one["tin"] + plan.get("w", 6)) + 1)]
        for p in reps:
            want_rec = bool(plan.get("rec")) and budget[0] > 0
            rec = [] if want_rec else None
            o, probs = one_run(p, rec, tail=2 if want_rec else 0, cap=cap, one=one)
            o.pop("_full", None)
            bad = class_of_mismatch(one, o, exempt)
            for q in probs:
                res["problems"].append(dict(what=q, plan=p, obs=o))
            if bad or probs:
                # record the offending run call by call (for the trace specification and the replay file)
                rec2 = []
                o2, _ = one_run(p, rec2, tail=2, cap=cap, one=one)
                o2.pop("_full", None)
                if bad:
                    res["mism"].append(dict(what=bad, plan=p, obs=o, one=one))
                res["traces"].append(dict(plan=p, events=rec2, final=o2, bad=True))
            elif want_rec and len(rec) <= 400:
                budget[0] -= len(rec) + 2
                res["traces"].append(dict(plan=p, events=rec, final=o, bad=False))
    return res


# ------------------------------------------------------------------------------------------------ determinism groups
def run_group(g):
    """One (data, options) and a list of run configurations; returns the digests."""
    data = bytes.fromhex(g["data"])
    runs = []
    for cfg in g["runs"]:
        a = dict(g["args"]); a.update(cfg.get("args", {}))
        m = make_with_history(g["entry"], a, data, None, cfg.get("prior"))
        if m.ret != lz.OK:
            runs.append(dict(cfg=cfg, dig="INIT_" + lz.retname(m.ret), ret="INIT"))
            unmake(m)
            continue
        bufs = Bufs(m.data, max(4096, 2 * len(m.data) + 8192))
        ins, outs, irep, orep = expand_plan(cfg.get("plan", {"k": "oneshot"}), bufs.n, 0)
        r = drive(g["entry"], m, bufs, ins, outs, irep, orep, ok_bound=ok_bound_for(g["entry"], a))
        out = bufs.ob.data(r["op"])
        text = getattr(m.owned_filters, "_text", None)
        unmake(m)
        runs.append(dict(cfg=cfg, dig=dig(out), ret=lz.retname(r["ret"]), text=text, problems=r["problems"]))
    return dict(id=g["id"], entry=g["entry"], cls=g["cls"], runs=runs)


# ------------------------------------------------------------------------------------------------ text vs structure
MODE = {"fast": lz.MODE_FAST, "normal": lz.MODE_NORMAL}
MF = {"hc3": lz.MF_HC3, "hc4": lz.MF_HC4, "bt2": lz.MF_BT2, "bt3": lz.MF_BT3, "bt4": lz.MF_BT4}
FIELDS = ("dict_size", "lc", "lp", "pb", "mode", "nice_len", "mf", "depth")


def run_strcmp(it):
    """it: dict(text, filter 'lzma1'|'lzma2', prefix spec, want {dict,lc,lp,pb,mode,mf,nice,depth}, data hex | None).
    lzma_str_to_filters(text) must denote exactly `want`; encoding with the text form and with a structure filled
    from `want` must give the same bytes."""
    L = lz.L()
    w = it["want"]
    want = [w["dict"], w["lc"], w["lp"], w["pb"], MODE[w["mode"]], w["nice"], MF[w["mf"]], w["depth"]]
    out = (lz.Filter * 5)()
    epos = C.c_int(0)
    tbuf = C.create_string_buffer(it["text"].encode())
    L.lzma_str_to_filters.argtypes = [C.c_void_p] + list(L.lzma_str_to_filters.argtypes[1:])
    msg = L.lzma_str_to_filters(C.addressof(tbuf), C.byref(epos), out, STR_ALL_FILTERS, None)
    res = dict(id=it["id"], text=it["text"], want=want, got=[], msg=(msg or b"").decode("latin1"), digs=[], cls=it.get("cls", "str"))
    if msg is not None:
        return res
    n = 0
    while out[n].id != UNKNOWN:
        n += 1
    o = C.cast(out[n - 1].options, C.POINTER(lz.OptLzma)).contents
    res["got"] = [getattr(o, f) for f in FIELDS]
    res["ids"] = [out[i].id for i in range(n)]
    if it.get("data") is not None:
        data = bytes.fromhex(it["data"])
        # structure form: every field set explicitly from `want` (not through lzma_lzma_preset)
        so = lz.OptLzma()
        for f, v in zip(FIELDS, want):
            setattr(so, f, v)
        pre = build_filters(it.get("prefix_spec") or [])
        specs = []
        k = 0
        while pre[k].id != UNKNOWN:
            specs.append((pre[k].id, None)); k += 1
        arr = (lz.Filter * 5)()
        for i in range(k):
            arr[i].id = pre[i].id; arr[i].options = pre[i].options
        arr[k].id = FID[it["filter"]]; arr[k].options = C.cast(C.pointer(so), C.c_void_p).value
        arr[k + 1].id = UNKNOWN
        for label, fl in (("text", out), ("struct", arr)):
            c = lz.Coder()
            r = c.init("lzma_raw_encoder", fl)
            if r != lz.OK:
                res["digs"].append(dict(form=label, dig="INIT_" + lz.retname(r)))
                c.end()
                continue
            m = Made(); m.c = c; m.data = data
            bufs = Bufs(data, 2 * len(data) + 8192)
            rr = drive("raw_encoder", m, bufs, [], [], 0, 0)
            res["digs"].append(dict(form=label, dig=dig(bufs.ob.data(rr["op"])), ret=lz.retname(rr["ret"])))
            c.end()
    L.lzma_filters_free(out, None)
    return res


# ------------------------------------------------------------------------------------------------ stateless parsers
def run_parse(p):
    """One call of a stateless parser on spec-generated bytes.  Returns dict(entry, ret, extra)."""
    L = lz.L()
    e = p["entry"]
    raw = bytes.fromhex(p.get("data", ""))
    use_alloc = p.get("alloc", True)
    alloc = lz.CountingAllocator(fail_at=p.get("fail_at", ())) if use_alloc else None
    ap = alloc.ptr() if alloc is not None else None
    buf = Exact(raw)
    extra = {}
    if e == "block_header_decode":
        b = lz.Block(); b.version = p.get("version", 1); b.check = p.get("check", 1)
        f = (lz.Filter * 5)()
        for i in range(5):
            f[i].id = UNKNOWN
        b.filters = C.cast(f, C.POINTER(lz.Filter)) if not p.get("null_filters") else None
        b.header_size = p.get("header_size", len(raw))
        ret = L.lzma_block_header_decode(C.byref(b), ap, buf.addr)
        if ret == lz.OK:
            n = 0
            while n < 5 and f[n].id != UNKNOWN:
                n += 1
            extra = dict(nfilters=n, csize=str(b.compressed_size), usize=str(b.uncompressed_size))
        if b.filters:
            L.lzma_filters_free(b.filters, ap)
        rn = lz.retname(ret)
    elif e in ("stream_header_decode", "stream_footer_decode"):
        sf = lz.StreamFlags()
        ret = getattr(L, "lzma_" + e)(C.byref(sf), buf.addr)
        if ret == lz.OK:
            extra = dict(check=sf.check, version=sf.version, backward=str(sf.backward_size))
        rn = lz.retname(ret)
    elif e == "filter_flags_decode":
        f = lz.Filter(); f.id = 0; f.options = None
        pos = C.c_size_t(0)
        ret = L.lzma_filter_flags_decode(C.byref(f), ap, buf.addr, C.byref(pos), len(raw))
        extra = dict(pos=pos.value)
        if pos.value > len(raw):
            extra["oob"] = True
        if ret == lz.OK and f.options:
            alloc._free(None, f.options) if alloc is not None else _libc.free(f.options)
        rn = lz.retname(ret)
    elif e == "properties_decode":
        f = lz.Filter(); f.id = int(p["filter_id"]); f.options = None
        ret = L.lzma_properties_decode(C.byref(f), ap, buf.addr, len(raw))
        if f.options:
            if ret != lz.OK:
                extra["options_on_error"] = True
            alloc._free(None, f.options) if alloc is not None else _libc.free(f.options)
        rn = lz.retname(ret)
    elif e == "index_buffer_decode":
        idx = C.c_void_p()
        ml = C.c_uint64(p.get("memlimit", lz.UINT64_MAX))
        pos = C.c_size_t(0)
        ret = L.lzma_index_buffer_decode(C.byref(idx), C.byref(ml), ap, buf.addr, C.byref(pos), len(raw))
        extra = dict(pos=pos.value)
        if ret == lz.OK:
            extra["blocks"] = L.lzma_index_block_count(idx)
            L.lzma_index_end(idx, ap)
        elif idx.value:
            extra["index_on_error"] = True
        if ret == lz.MEMLIMIT_ERROR:
            extra["need"] = str(ml.value)
        rn = lz.retname(ret)
    elif e in ("vli_decode", "vli_decode_single"):
        v = C.c_uint64(p.get("vli0", 0))
        ipos = C.c_size_t(0)
        if e == "vli_decode_single":
            ret = L.lzma_vli_decode(C.byref(v), None, buf.addr, C.byref(ipos), len(raw))
            rets = [lz.retname(ret)]
        else:
            # multi-call: the slicing of the bytes is part of the input
            vpos = C.c_size_t(p.get("vpos0", 0))
            rets = []
            end = 0
            for k in p.get("cuts", [len(raw)]) + [len(raw)]:
                end = max(end, min(k, len(raw)))
                ret = L.lzma_vli_decode(C.byref(v), C.byref(vpos), buf.addr, C.byref(ipos), end)
                rets.append(lz.retname(ret))
                if ret != lz.OK or (end == len(raw) and ipos.value == end):
                    break
            extra["vpos"] = vpos.value
        extra.update(value=str(v.value), ipos=ipos.value, rets=rets)
        rn = rets[-1]
    elif e == "str_to_filters":
        out = (lz.Filter * 5)()
        for i in range(5):
            out[i].id = UNKNOWN
        epos = C.c_int(-7)
        text = raw + b"\0"
        tb = lz.Buf(len(text), text)
        L.lzma_str_to_filters.argtypes = [C.c_void_p] + list(L.lzma_str_to_filters.argtypes[1:])
        msg = L.lzma_str_to_filters(tb.addr, C.byref(epos), out, p.get("flags", 0), ap)
        rn = "OK" if msg is None else "MSG"
        extra = dict(epos=epos.value, msg=(msg or b"").decode("latin1"))
        if msg is None:
            L.lzma_filters_free(out, ap)
        elif not (0 <= epos.value <= len(raw)):
            extra["oob"] = True
        if not tb.guards_ok():
            extra["guard"] = True
    elif e == "stream_buffer_decode":
        ml = C.c_uint64(p.get("memlimit", lz.UINT64_MAX))
        ipos = C.c_size_t(0); opos = C.c_size_t(0)
        ob = lz.Buf(p.get("out_size", 1 << 16))
        ret = L.lzma_stream_buffer_decode(C.byref(ml), p.get("flags", 0), ap, buf.addr, C.byref(ipos), len(raw),
                                          ob.addr, C.byref(opos), ob.size)
        extra = dict(ipos=ipos.value, opos=opos.value)
        if not ob.guards_ok():
            extra["guard"] = True
        rn = lz.retname(ret)
    else:
        raise ValueError(e)
    if buf.data() != raw:
        extra["guard"] = True
    buf.free()
    if alloc is not None:
        if alloc.live:
            extra["leak"] = len(alloc.live)
        if alloc.errors:
            extra["badfree"] = alloc.errors[:2]
    return dict(id=p["id"], entry=e, cls=p.get("cls", ""), ret=rn, extra=extra)


# ------------------------------------------------------------------------------------------------ main
def main():
    job = json.load(open(sys.argv[1]))
    outp = sys.argv[2]
    lz.load(job["so"])
    budget = [job.get("rec_budget", 0)]
    t0 = time.time()
    with open(outp, "w") as out, open(outp + ".cur", "w") as cur:
        for kind, items, fn in (("subject", job.get("subjects", []), lambda x: run_subject(x, budget)),
                                ("group", job.get("groups", []), run_group),
                                ("parse", job.get("parses", []), run_parse),
                                ("strcmp", job.get("strcmps", []), run_strcmp)):
            for it in items:
                cur.seek(0); cur.truncate(); cur.write("%s %s\n" % (kind, it["id"])); cur.flush()
                # watchdog: SIGALRM is not handled, so an item that does not finish (endless loop inside liblzma,
                # deadlock of the threaded decoder) kills the process with status -14
                signal.alarm(int(it.get("timeout") or job.get("item_timeout", 300)))
                try:
                    r = fn(it)
                except (RuntimeError, ValueError, AssertionError) as ex:
                    r = dict(id=it["id"], machinery="%s: %s" % (type(ex).__name__, ex))
                r["kind"] = kind
                out.write(json.dumps(r) + "\n")
                out.flush()
        signal.alarm(0)
        cur.seek(0); cur.truncate(); cur.write("done %.1f\n" % (time.time() - t0)); cur.flush()


if __name__ == "__main__":
    main()
