"""C09 driver: decoders under memory limits with a size-recording lzma_allocator, estimate-vs-peak measurements,
file patching (declared dictionary size).  Events go to spec/TraceMemLimit.tla."""
import ctypes as C, zlib, hashlib, time
from . import lz, coders

UNL = 2147483647          # how UINT64_MAX is logged (TLC integers are 32-bit)
BASE = 32768              # LZMA_MEMUSAGE_BASE

PROT_RW, MAP_PRIVATE, MAP_ANON, MAP_NORESERVE = 3, 2, 0x20, 0x4000
BIG = 1 << 20


class SizeAlloc:
    """lzma_allocator keeping a ledger of sizes.  Blocks >= 1 MiB come from anonymous mmap (untouched pages cost
    nothing, so declared dictionaries of 1.5 GiB are cheap); smaller ones from malloc (ASan red zones)."""
    def __init__(self):
        self.libc = C.CDLL(None, use_errno=True)
        self.libc.malloc.restype = C.c_void_p; self.libc.malloc.argtypes = [C.c_size_t]
        self.libc.free.argtypes = [C.c_void_p]
        self.libc.mmap.restype = C.c_void_p
        self.libc.mmap.argtypes = [C.c_void_p, C.c_size_t, C.c_int, C.c_int, C.c_int, C.c_long]
        self.libc.munmap.argtypes = [C.c_void_p, C.c_size_t]
        self.live = {}
        self.cur = 0; self.peak = 0; self.n = 0
        self.sizes = []           # every allocation size, in order
        self.bad = 0
        self._a = lz.ALLOC_F(self._alloc); self._f = lz.FREE_F(self._free)
        self.struct = lz.Allocator(self._a, self._f, None)

    def _alloc(self, opaque, nmemb, size):
        sz = nmemb * size
        self.n += 1
        if sz >= BIG:
            p = self.libc.mmap(None, sz, PROT_RW, MAP_PRIVATE | MAP_ANON | MAP_NORESERVE, -1, 0)
            if p in (None, C.c_void_p(-1).value):
                return None
        else:
            p = self.libc.malloc(max(sz, 1))
            if not p:
                return None
        self.live[p] = sz
        self.cur += sz
        if self.cur > self.peak:
            self.peak = self.cur
        self.sizes.append(sz)
        return p

    def _free(self, opaque, ptr):
        if not ptr:
            return
        sz = self.live.pop(ptr, None)
        if sz is None:
            self.bad += 1
            return
        self.cur -= sz
        if sz >= BIG:
            self.libc.munmap(ptr, sz)
        else:
            self.libc.free(ptr)

    def take_peak(self):
        """peak since the last call of take_peak()"""
        p = self.peak
        self.peak = self.cur
        return p

    def ptr(self):
        return C.pointer(self.struct)


def cap(n):
    return UNL if n >= UNL else int(n)


# ---------------------------------------------------------------- files with a declared dictionary size
def lzma2_dict_byte(size):
    for d in range(41):
        s = 0xFFFFFFFF if d == 40 else (2 | (d & 1)) << (d // 2 + 11)
        if s >= size:
            return d, s
    raise ValueError(size)


def _vli_skip(b, pos):
    while b[pos] & 0x80:
        pos += 1
    return pos + 1


def patch_xz_dict(xz, size, stream_off=0):
    """Return a copy of .xz `xz` whose Block Headers (all Blocks of the first Stream whose headers are found by
    walking the Index is overkill: encoder output here has identical headers) declare LZMA2 dictionary `size`."""
    d, real = lzma2_dict_byte(size)
    out = bytearray(xz)
    pos = stream_off + 12
    hs = (out[pos] + 1) * 4
    hdr = out[pos:pos + hs]
    flags = hdr[1]
    p = 2
    if flags & 0x40:
        p = _vli_skip(hdr, p)
    if flags & 0x80:
        p = _vli_skip(hdr, p)
    found = False
    for _ in range((flags & 3) + 1):
        fid = hdr[p]; idlen = _vli_skip(hdr, p) - p
        p += idlen
        psz = hdr[p]; p += 1
        if fid == 0x21 and idlen == 1:
            hdr[p] = d; found = True
        p += psz
    if not found:
        raise ValueError("no LZMA2 filter in Block Header")
    hdr[-4:] = zlib.crc32(bytes(hdr[:-4])).to_bytes(4, "little")
    # patch every identical header occurrence that starts a Block (multi-Block files from the MT encoder differ in
    # size fields, so those are patched by the caller Block by Block)
    out[pos:pos + hs] = hdr
    return bytes(out), real


def patch_all_blocks(xz, size):
    """Patch the LZMA2 dictionary size in every Block Header of a single-Stream .xz (Blocks located via the Index)."""
    L = lz.L()
    d, real = lzma2_dict_byte(size)
    idx = C.c_void_p(); ml = C.c_uint64(lz.UINT64_MAX); ipos = C.c_size_t(0)
    bsize = (int.from_bytes(xz[-8:-4], "little") + 1) * 4
    ib = lz.Buf(bsize, xz[len(xz) - 12 - bsize:len(xz) - 12])
    assert L.lzma_index_buffer_decode(C.byref(idx), C.byref(ml), None, ib.addr, C.byref(ipos), bsize) == lz.OK
    it = lz.IndexIter(); L.lzma_index_iter_init(C.byref(it), idx)
    out = bytearray(xz)
    blocks = []
    while not L.lzma_index_iter_next(C.byref(it), lz.ITER_BLOCK):
        off = it.block.compressed_file_offset
        hs = (out[off] + 1) * 4
        hdr = out[off:off + hs]
        flags = hdr[1]; p = 2
        if flags & 0x40:
            p = _vli_skip(hdr, p)
        if flags & 0x80:
            p = _vli_skip(hdr, p)
        for _ in range((flags & 3) + 1):
            fid = hdr[p]; idlen = _vli_skip(hdr, p) - p; p += idlen
            psz = hdr[p]; p += 1
            if fid == 0x21 and idlen == 1:
                hdr[p] = d
            p += psz
        hdr[-4:] = zlib.crc32(bytes(hdr[:-4])).to_bytes(4, "little")
        out[off:off + hs] = hdr
        blocks.append(dict(off=off, hs=hs, unpadded=it.block.unpadded_size, uncomp=it.block.uncompressed_size,
                           sizes_known=bool(flags & 0xC0 == 0xC0)))
    L.lzma_index_end(idx, None)
    return bytes(out), real, blocks


def patch_alone_dict(lzma, size):
    out = bytearray(lzma)
    out[1:5] = int(size).to_bytes(4, "little")
    return bytes(out)


def patch_lzip_dict(lzdata, log2, frac=0):
    """.lz header byte 5: bits 4-0 = log2 of base size, bits 7-5 = sixteenths subtracted."""
    out = bytearray(lzdata)
    out[5] = (frac << 5) | log2
    return bytes(out), (1 << log2) - frac * (1 << (log2 - 4))


# ---------------------------------------------------------------- limited decoders
def make_decoder(kind, al, limit, data, flags=0, threads=0, tlimit=None):
    c = lz.Coder(al)
    lim = lz.UINT64_MAX if limit >= UNL else limit
    if kind == "stream":
        r = c.init("lzma_stream_decoder", lim, flags | lz.CONCATENATED)
    elif kind == "auto":
        r = c.init("lzma_auto_decoder", lim, flags | lz.CONCATENATED)
    elif kind == "alone":
        r = c.init("lzma_alone_decoder", lim)
    elif kind == "lzip":
        r = c.init("lzma_lzip_decoder", lim, flags | lz.CONCATENATED)
    elif kind == "index":
        c.index_out = C.c_void_p()
        r = c.init("lzma_index_decoder", C.byref(c.index_out), lim)
    elif kind == "file_info":
        c.index_out = C.c_void_p()
        r = c.init("lzma_file_info_decoder", C.byref(c.index_out), lim, len(data))
    elif kind == "stream_mt":
        mt = lz.Mt(); mt.threads = threads; mt.flags = flags | lz.CONCATENATED
        tl = UNL if tlimit is None else tlimit
        mt.memlimit_threading = lz.UINT64_MAX if tl >= UNL else tl
        mt.memlimit_stop = lim
        c.keep = mt
        r = c.init("lzma_stream_decoder_mt", C.byref(mt))
    else:
        raise ValueError(kind)
    if r != lz.OK:
        raise RuntimeError("constructor %s failed: %s" % (kind, r))
    return c


class LimitedRun:
    """Drive one decoder over `data` and log Code / Set events.  policy(run, usage) decides what to do after
    LZMA_MEMLIMIT_ERROR: return a new limit to set (then lzma_code is called again) or None to stop."""
    def __init__(self, kind, data, limit, threads=0, tlimit=None, chunk=None, out_chunk=1 << 16):
        self.kind = kind; self.data = data
        self.al = SizeAlloc()
        self.c = make_decoder(kind, self.al, limit, data, threads=threads, tlimit=tlimit)
        self.events = [dict(e="Init", kind=kind, limit=cap(max(1, limit)), tlimit=cap(UNL if tlimit is None else max(1, tlimit)),
                            threads=threads, usage=cap(lz.L().lzma_memusage(C.byref(self.c.strm))),
                            live=self.al.cur, peak=self.al.take_peak())]
        self.h = hashlib.sha256(); self.outlen = 0; self.out = bytearray()
        self.pos = 0
        self.ib = lz.Buf(len(data), data); self.ob = lz.Buf(out_chunk)
        self.chunk = chunk; self.out_chunk = out_chunk
        self.ret = None
        self.index_summary = None

    def set_limit(self, new):
        L = lz.L(); s = self.c.strm
        before = cap(L.lzma_memusage(C.byref(s)))
        r = L.lzma_memlimit_set(C.byref(s), lz.UINT64_MAX if new >= UNL else new)
        self.events.append(dict(e="Set", new=cap(new), ret=lz.retname(r), usage=cap(L.lzma_memusage(C.byref(s))),
                                limit=cap(L.lzma_memlimit_get(C.byref(s))), usage_before=before))
        return r

    def code(self):
        """one lzma_code() call; returns ret"""
        L = lz.L(); s = self.c.strm; n = len(self.data)
        give = n - self.pos if self.chunk is None else min(self.chunk, n - self.pos)
        s.next_in = self.ib.addr + self.pos; s.avail_in = give
        s.next_out = self.ob.addr; s.avail_out = self.out_chunk
        action = lz.FINISH if self.pos + give == n else lz.RUN
        sizes0 = len(self.al.sizes)
        r = self.c.code_raw(action)
        used = give - s.avail_in; got = self.out_chunk - s.avail_out
        self.pos += used
        if got:
            o = self.ob.data(got)
            self.h.update(o); self.outlen += got
            if self.outlen <= (1 << 22):
                self.out += o
        if r == lz.SEEK_NEEDED:
            self.pos = min(n, s.seek_pos)
        self.events.append(dict(e="Code", ret=lz.retname(r), usage=cap(L.lzma_memusage(C.byref(s))),
                                limit=cap(L.lzma_memlimit_get(C.byref(s))), live=cap(self.al.cur), peak=cap(self.al.take_peak()),
                                big=cap(max(self.al.sizes[sizes0:] or [0]))))
        return r

    def run(self, policy=None, max_calls=100000):
        nerr = 0
        for _ in range(max_calls):
            r = self.code()
            if r == lz.MEMLIMIT_ERROR:
                nerr += 1
                new = policy(self, lz.L().lzma_memusage(C.byref(self.c.strm))) if policy else None
                if new is None or nerr > 40:      # (a decoder that never gets past the limit must not loop forever)
                    break
                if new == "again":                # call lzma_code() again without touching the limit
                    continue
                if isinstance(new, tuple):        # ("try", value): set it and call again whether accepted or not
                    self.set_limit(new[1])
                    continue
                if self.set_limit(new) != lz.OK:
                    break
                continue
            if r not in (lz.OK, lz.SEEK_NEEDED):
                break
        self.ret = r
        if self.kind in ("index", "file_info") and self.c.index_out.value:
            L = lz.L(); i = self.c.index_out
            self.index_summary = (L.lzma_index_stream_count(i), L.lzma_index_block_count(i), L.lzma_index_file_size(i),
                                  L.lzma_index_uncompressed_size(i), L.lzma_index_memused(i))
            self.index_memused = L.lzma_index_memused(i)
            self.index_live = self.al.cur
            L.lzma_index_end(i, self.al.ptr())
        self.c.end()
        self.final_live = self.al.cur
        return self

    def result(self):
        return (lz.retname(self.ret), self.h.hexdigest(), self.outlen, self.index_summary)


# ---------------------------------------------------------------- estimates vs real peak
def measure_peak(make, data, finish=lz.FINISH):
    """make(coder) -> ret initialises coder.strm; run to the end; return (peak bytes, ret)."""
    al = SizeAlloc()
    c = lz.Coder(al)
    r = make(c)
    if r != lz.OK:
        c.end()
        return None, r
    res = lz.run_coder(c, data, finish_action=finish)
    c.end()
    return al.peak, res["ret"]


def measure_peak_slow(make, data, stall_s=0.4):
    """Like measure_peak, but with a slow consumer: all input is offered while only one byte of output space is
    given per lzma_code() call for stall_s seconds (so that a threaded encoder fills its whole output queue),
    then the output is drained."""
    al = SizeAlloc()
    c = lz.Coder(al)
    r = make(c)
    if r != lz.OK:
        c.end()
        return None, r
    s = c.strm
    ib = lz.Buf(len(data), data); ob = lz.Buf(1 << 16)
    s.next_in = ib.addr; s.avail_in = len(data)
    t0 = time.time()
    r = lz.OK
    while r == lz.OK and time.time() - t0 < stall_s:
        s.next_out = ob.addr; s.avail_out = 1
        r = c.code_raw(lz.RUN if s.avail_in else lz.FINISH)
        time.sleep(0.001)
    n = 0
    while r == lz.OK and n < 1000000:
        s.next_out = ob.addr; s.avail_out = 1 << 16
        r = c.code_raw(lz.RUN if s.avail_in else lz.FINISH)
        n += 1
    c.end()
    return al.peak, r


# ---------------------------------------------------------------- synthetic multi-Stream files with large Indexes
def synth_xz_stream(records, check=lz.CHECK_CRC32):
    """A Stream that is valid for lzma_file_info_decoder (Stream Header, Block area of the right size, Index,
    Stream Footer); the Block area is zero-filled (the file info decoder never decodes Blocks).
    records: list of (unpadded_size, uncompressed_size)."""
    L = lz.L()
    idx = L.lzma_index_init(None)
    area = 0
    for u, n in records:
        assert L.lzma_index_append(idx, None, u, n) == lz.OK
        area += (u + 3) // 4 * 4
    isize = L.lzma_index_size(idx)
    ibuf = lz.Buf(isize); pos = C.c_size_t(0)
    assert L.lzma_index_buffer_encode(idx, ibuf.addr, C.byref(pos), isize) == lz.OK
    L.lzma_index_end(idx, None)
    sf = lz.StreamFlags(); sf.version = 0; sf.check = check; sf.backward_size = isize
    hb = lz.Buf(12); fb = lz.Buf(12)
    assert L.lzma_stream_header_encode(C.byref(sf), hb.addr) == lz.OK
    assert L.lzma_stream_footer_encode(C.byref(sf), fb.addr) == lz.OK
    return hb.data(12) + bytes(area) + ibuf.data(pos.value) + fb.data(12)
