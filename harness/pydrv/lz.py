"""ctypes binding of liblzma (built from the repository's working tree by lib/build.py).

Only declarations of the *public* API (transcribed from src/liblzma/api/lzma/*.h) live here,
plus helpers to drive lzma_code() with arbitrary buffer slicing, guard bytes and a
counting / failing allocator.  One JSON-able event per call is produced at return.
"""
import ctypes as C, os, sys

# ---- return codes / actions
OK, STREAM_END, NO_CHECK, UNSUPPORTED_CHECK, GET_CHECK, MEM_ERROR, MEMLIMIT_ERROR, FORMAT_ERROR, \
    OPTIONS_ERROR, DATA_ERROR, BUF_ERROR, PROG_ERROR, SEEK_NEEDED = range(13)
RET = ["OK", "STREAM_END", "NO_CHECK", "UNSUPPORTED_CHECK", "GET_CHECK", "MEM_ERROR", "MEMLIMIT_ERROR",
       "FORMAT_ERROR", "OPTIONS_ERROR", "DATA_ERROR", "BUF_ERROR", "PROG_ERROR", "SEEK_NEEDED"]
def retname(r):
    return RET[r] if 0 <= r < len(RET) else "INTERNAL_%d" % r
RUN, SYNC_FLUSH, FULL_FLUSH, FINISH, FULL_BARRIER = 0, 1, 2, 3, 4
ACT = {0: "RUN", 1: "SYNC_FLUSH", 2: "FULL_FLUSH", 3: "FINISH", 4: "FULL_BARRIER"}
TELL_NO_CHECK, TELL_UNSUPPORTED_CHECK, TELL_ANY_CHECK, CONCATENATED, IGNORE_CHECK, FAIL_FAST = 1, 2, 4, 8, 16, 32
CHECK_NONE, CHECK_CRC32, CHECK_CRC64, CHECK_SHA256 = 0, 1, 4, 10
VLI_UNKNOWN = 0xFFFFFFFFFFFFFFFF
FILTER_LZMA1, FILTER_LZMA1EXT, FILTER_LZMA2 = 0x4000000000000001, 0x4000000000000002, 0x21
FILTER_DELTA, FILTER_X86, FILTER_POWERPC, FILTER_IA64, FILTER_ARM, FILTER_ARMTHUMB, FILTER_SPARC, \
    FILTER_ARM64, FILTER_RISCV = 3, 4, 5, 6, 7, 8, 9, 10, 11
MF_HC3, MF_HC4, MF_BT2, MF_BT3, MF_BT4 = 0x03, 0x04, 0x12, 0x13, 0x14
MODE_FAST, MODE_NORMAL = 1, 2
PRESET_EXTREME = 0x80000000
UINT64_MAX = 0xFFFFFFFFFFFFFFFF

ALLOC_F = C.CFUNCTYPE(C.c_void_p, C.c_void_p, C.c_size_t, C.c_size_t)
FREE_F = C.CFUNCTYPE(None, C.c_void_p, C.c_void_p)

class Allocator(C.Structure):
    _fields_ = [("alloc", ALLOC_F), ("free", FREE_F), ("opaque", C.c_void_p)]

class Stream(C.Structure):
    _fields_ = [("next_in", C.c_void_p), ("avail_in", C.c_size_t), ("total_in", C.c_uint64),
                ("next_out", C.c_void_p), ("avail_out", C.c_size_t), ("total_out", C.c_uint64),
                ("allocator", C.POINTER(Allocator)), ("internal", C.c_void_p),
                ("reserved_ptr1", C.c_void_p), ("reserved_ptr2", C.c_void_p),
                ("reserved_ptr3", C.c_void_p), ("reserved_ptr4", C.c_void_p),
                ("seek_pos", C.c_uint64), ("reserved_int2", C.c_uint64),
                ("reserved_int3", C.c_size_t), ("reserved_int4", C.c_size_t),
                ("reserved_enum1", C.c_int), ("reserved_enum2", C.c_int)]

class Filter(C.Structure):
    _fields_ = [("id", C.c_uint64), ("options", C.c_void_p)]

class OptLzma(C.Structure):
    _fields_ = [("dict_size", C.c_uint32), ("preset_dict", C.c_void_p), ("preset_dict_size", C.c_uint32),
                ("lc", C.c_uint32), ("lp", C.c_uint32), ("pb", C.c_uint32), ("mode", C.c_int),
                ("nice_len", C.c_uint32), ("mf", C.c_int), ("depth", C.c_uint32),
                ("ext_flags", C.c_uint32), ("ext_size_low", C.c_uint32), ("ext_size_high", C.c_uint32),
                ("reserved_int4", C.c_uint32), ("reserved_int5", C.c_uint32), ("reserved_int6", C.c_uint32),
                ("reserved_int7", C.c_uint32), ("reserved_int8", C.c_uint32),
                ("reserved_enum1", C.c_int), ("reserved_enum2", C.c_int), ("reserved_enum3", C.c_int),
                ("reserved_enum4", C.c_int), ("reserved_ptr1", C.c_void_p), ("reserved_ptr2", C.c_void_p)]

class OptBcj(C.Structure):
    _fields_ = [("start_offset", C.c_uint32)]

class OptDelta(C.Structure):
    _fields_ = [("type", C.c_int), ("dist", C.c_uint32), ("reserved_int1", C.c_uint32), ("reserved_int2", C.c_uint32),
                ("reserved_int3", C.c_uint32), ("reserved_int4", C.c_uint32),
                ("reserved_ptr1", C.c_void_p), ("reserved_ptr2", C.c_void_p)]

class Mt(C.Structure):
    _fields_ = [("flags", C.c_uint32), ("threads", C.c_uint32), ("block_size", C.c_uint64), ("timeout", C.c_uint32),
                ("preset", C.c_uint32), ("filters", C.POINTER(Filter)), ("check", C.c_int),
                ("reserved_enum1", C.c_int), ("reserved_enum2", C.c_int), ("reserved_enum3", C.c_int),
                ("reserved_int1", C.c_uint32), ("reserved_int2", C.c_uint32), ("reserved_int3", C.c_uint32),
                ("reserved_int4", C.c_uint32), ("memlimit_threading", C.c_uint64), ("memlimit_stop", C.c_uint64),
                ("reserved_int7", C.c_uint64), ("reserved_int8", C.c_uint64),
                ("reserved_ptr1", C.c_void_p), ("reserved_ptr2", C.c_void_p), ("reserved_ptr3", C.c_void_p),
                ("reserved_ptr4", C.c_void_p)]

class Block(C.Structure):
    _fields_ = [("version", C.c_uint32), ("header_size", C.c_uint32), ("check", C.c_int),
                ("compressed_size", C.c_uint64), ("uncompressed_size", C.c_uint64),
                ("filters", C.POINTER(Filter)), ("raw_check", C.c_uint8 * 64),
                ("reserved_ptr1", C.c_void_p), ("reserved_ptr2", C.c_void_p), ("reserved_ptr3", C.c_void_p),
                ("reserved_int1", C.c_uint32), ("reserved_int2", C.c_uint32),
                ("reserved_int3", C.c_uint64), ("reserved_int4", C.c_uint64), ("reserved_int5", C.c_uint64),
                ("reserved_int6", C.c_uint64), ("reserved_int7", C.c_uint64), ("reserved_int8", C.c_uint64),
                ("reserved_enum1", C.c_int), ("reserved_enum2", C.c_int), ("reserved_enum3", C.c_int),
                ("reserved_enum4", C.c_int), ("ignore_check", C.c_ubyte), ("reserved_bool2", C.c_ubyte),
                ("reserved_bool3", C.c_ubyte), ("reserved_bool4", C.c_ubyte), ("reserved_bool5", C.c_ubyte),
                ("reserved_bool6", C.c_ubyte), ("reserved_bool7", C.c_ubyte), ("reserved_bool8", C.c_ubyte)]

class StreamFlags(C.Structure):
    _fields_ = [("version", C.c_uint32), ("backward_size", C.c_uint64), ("check", C.c_int),
                ("reserved_enum1", C.c_int), ("reserved_enum2", C.c_int), ("reserved_enum3", C.c_int),
                ("reserved_enum4", C.c_int)] + [("reserved_bool%d" % i, C.c_ubyte) for i in range(1, 9)] + \
               [("reserved_int1", C.c_uint32), ("reserved_int2", C.c_uint32)]

class _IterStream(C.Structure):
    _fields_ = [("flags", C.POINTER(StreamFlags)), ("reserved_ptr1", C.c_void_p), ("reserved_ptr2", C.c_void_p),
                ("reserved_ptr3", C.c_void_p), ("number", C.c_uint64), ("block_count", C.c_uint64),
                ("compressed_offset", C.c_uint64), ("uncompressed_offset", C.c_uint64),
                ("compressed_size", C.c_uint64), ("uncompressed_size", C.c_uint64), ("padding", C.c_uint64),
                ("reserved_vli1", C.c_uint64), ("reserved_vli2", C.c_uint64), ("reserved_vli3", C.c_uint64),
                ("reserved_vli4", C.c_uint64)]

class _IterBlock(C.Structure):
    _fields_ = [("number_in_file", C.c_uint64), ("compressed_file_offset", C.c_uint64),
                ("uncompressed_file_offset", C.c_uint64), ("number_in_stream", C.c_uint64),
                ("compressed_stream_offset", C.c_uint64), ("uncompressed_stream_offset", C.c_uint64),
                ("uncompressed_size", C.c_uint64), ("unpadded_size", C.c_uint64), ("total_size", C.c_uint64),
                ("reserved_vli1", C.c_uint64), ("reserved_vli2", C.c_uint64), ("reserved_vli3", C.c_uint64),
                ("reserved_vli4", C.c_uint64), ("reserved_ptr1", C.c_void_p), ("reserved_ptr2", C.c_void_p),
                ("reserved_ptr3", C.c_void_p), ("reserved_ptr4", C.c_void_p)]

class _IterInternal(C.Union):
    _fields_ = [("p", C.c_void_p), ("s", C.c_size_t), ("v", C.c_uint64)]

class IndexIter(C.Structure):
    _fields_ = [("stream", _IterStream), ("block", _IterBlock), ("internal", _IterInternal * 6)]

ITER_ANY, ITER_STREAM, ITER_BLOCK, ITER_NONEMPTY_BLOCK = 0, 1, 2, 3

_lib = None
def load(path=None):
    """Load the verif build of liblzma. Path comes from lib.build.lib(variant)['so'] or $VERIF_LIBLZMA."""
    global _lib
    path = path or os.environ.get("VERIF_LIBLZMA")
    L = C.CDLL(path)
    u64, u32, sz, vp, i = C.c_uint64, C.c_uint32, C.c_size_t, C.c_void_p, C.c_int
    PS = C.POINTER(Stream); PF = C.POINTER(Filter); PA = C.POINTER(Allocator)
    def f(name, res, *args):
        fn = getattr(L, name); fn.restype = res; fn.argtypes = list(args)
    f("lzma_code", i, PS, i); f("lzma_end", None, PS)
    f("lzma_memusage", u64, PS); f("lzma_memlimit_get", u64, PS); f("lzma_memlimit_set", i, PS, u64)
    f("lzma_get_progress", None, PS, C.POINTER(u64), C.POINTER(u64))
    f("lzma_get_check", i, PS)
    f("lzma_easy_encoder", i, PS, u32, i); f("lzma_easy_encoder_memusage", u64, u32)
    f("lzma_easy_decoder_memusage", u64, u32)
    f("lzma_easy_buffer_encode", i, u32, i, PA, vp, sz, vp, C.POINTER(sz), sz)
    f("lzma_stream_encoder", i, PS, PF, i)
    f("lzma_stream_encoder_mt", i, PS, C.POINTER(Mt)); f("lzma_stream_encoder_mt_memusage", u64, C.POINTER(Mt))
    f("lzma_mt_block_size", u64, PF)
    f("lzma_alone_encoder", i, PS, C.POINTER(OptLzma))
    f("lzma_stream_buffer_bound", sz, sz)
    f("lzma_stream_buffer_encode", i, PF, i, PA, vp, sz, vp, C.POINTER(sz), sz)
    f("lzma_microlzma_encoder", i, PS, C.POINTER(OptLzma))
    f("lzma_stream_decoder", i, PS, u64, u32); f("lzma_stream_decoder_mt", i, PS, C.POINTER(Mt))
    f("lzma_auto_decoder", i, PS, u64, u32); f("lzma_alone_decoder", i, PS, u64)
    f("lzma_lzip_decoder", i, PS, u64, u32)
    f("lzma_stream_buffer_decode", i, C.POINTER(u64), u32, PA, vp, C.POINTER(sz), sz, vp, C.POINTER(sz), sz)
    f("lzma_microlzma_decoder", i, PS, u64, u64, C.c_ubyte, u32)
    f("lzma_raw_encoder", i, PS, PF); f("lzma_raw_decoder", i, PS, PF)
    f("lzma_raw_encoder_memusage", u64, PF); f("lzma_raw_decoder_memusage", u64, PF)
    f("lzma_raw_buffer_encode", i, PF, PA, vp, sz, vp, C.POINTER(sz), sz)
    f("lzma_raw_buffer_decode", i, PF, PA, vp, C.POINTER(sz), sz, vp, C.POINTER(sz), sz)
    f("lzma_filters_copy", i, PF, PF, PA); f("lzma_filters_free", None, PF, PA)
    f("lzma_filters_update", i, PS, PF)
    f("lzma_filter_encoder_is_supported", C.c_ubyte, u64); f("lzma_filter_decoder_is_supported", C.c_ubyte, u64)
    f("lzma_properties_size", i, C.POINTER(u32), PF); f("lzma_properties_encode", i, PF, vp)
    f("lzma_properties_decode", i, PF, PA, vp, sz)
    f("lzma_filter_flags_size", i, C.POINTER(u32), PF)
    f("lzma_filter_flags_encode", i, PF, vp, C.POINTER(sz), sz)
    f("lzma_filter_flags_decode", i, PF, PA, vp, C.POINTER(sz), sz)
    f("lzma_str_to_filters", C.c_char_p, C.c_char_p, C.POINTER(i), PF, u32, PA)
    f("lzma_str_from_filters", i, C.POINTER(vp), PF, u32, PA)
    f("lzma_str_list_filters", i, C.POINTER(vp), u64, u32, PA)
    f("lzma_lzma_preset", C.c_ubyte, C.POINTER(OptLzma), u32)
    f("lzma_mf_is_supported", C.c_ubyte, i); f("lzma_mode_is_supported", C.c_ubyte, i)
    f("lzma_check_is_supported", C.c_ubyte, i); f("lzma_check_size", u32, i)
    f("lzma_crc32", u32, vp, sz, u32); f("lzma_crc64", u64, vp, sz, u64)
    PB = C.POINTER(Block)
    f("lzma_block_header_size", i, PB); f("lzma_block_header_encode", i, PB, vp)
    f("lzma_block_header_decode", i, PB, PA, vp)
    f("lzma_block_compressed_size", i, PB, u64); f("lzma_block_unpadded_size", u64, PB)
    f("lzma_block_total_size", u64, PB)
    f("lzma_block_encoder", i, PS, PB); f("lzma_block_decoder", i, PS, PB)
    f("lzma_block_buffer_bound", sz, sz)
    f("lzma_block_buffer_encode", i, PB, PA, vp, sz, vp, C.POINTER(sz), sz)
    f("lzma_block_uncomp_encode", i, PB, vp, sz, vp, C.POINTER(sz), sz)
    f("lzma_block_buffer_decode", i, PB, PA, vp, C.POINTER(sz), sz, vp, C.POINTER(sz), sz)
    PSF = C.POINTER(StreamFlags)
    f("lzma_stream_header_encode", i, PSF, vp); f("lzma_stream_footer_encode", i, PSF, vp)
    f("lzma_stream_header_decode", i, PSF, vp); f("lzma_stream_footer_decode", i, PSF, vp)
    f("lzma_stream_flags_compare", i, PSF, PSF)
    f("lzma_vli_encode", i, u64, C.POINTER(sz), vp, C.POINTER(sz), sz)
    f("lzma_vli_decode", i, C.POINTER(u64), C.POINTER(sz), vp, C.POINTER(sz), sz)
    f("lzma_vli_size", u32, u64)
    PI = C.POINTER(IndexIter)
    f("lzma_index_memusage", u64, u64, u64); f("lzma_index_memused", u64, vp)
    f("lzma_index_init", vp, PA); f("lzma_index_end", None, vp, PA)
    f("lzma_index_append", i, vp, PA, u64, u64)
    f("lzma_index_stream_flags", i, vp, PSF); f("lzma_index_checks", u32, vp)
    f("lzma_index_stream_padding", i, vp, u64)
    for g in ("stream_count", "block_count", "size", "stream_size", "total_size", "file_size", "uncompressed_size"):
        f("lzma_index_" + g, u64, vp)
    f("lzma_index_iter_init", None, PI, vp); f("lzma_index_iter_rewind", None, PI)
    f("lzma_index_iter_next", C.c_ubyte, PI, i); f("lzma_index_iter_locate", C.c_ubyte, PI, u64)
    f("lzma_index_cat", i, vp, vp, PA); f("lzma_index_dup", vp, vp, PA)
    f("lzma_index_encoder", i, PS, vp); f("lzma_index_decoder", i, PS, C.POINTER(vp), u64)
    f("lzma_index_buffer_encode", i, vp, vp, C.POINTER(sz), sz)
    f("lzma_index_buffer_decode", i, C.POINTER(vp), C.POINTER(u64), PA, vp, C.POINTER(sz), sz)
    f("lzma_file_info_decoder", i, PS, C.POINTER(vp), u64, u64)
    f("lzma_index_hash_init", vp, vp, PA); f("lzma_index_hash_end", None, vp, PA)
    f("lzma_index_hash_append", i, vp, u64, u64)
    f("lzma_index_hash_decode", i, vp, vp, C.POINTER(sz), sz); f("lzma_index_hash_size", u64, vp)
    for a in ("x86", "arm64", "riscv"):
        f("lzma_bcj_%s_encode" % a, sz, u32, vp, sz); f("lzma_bcj_%s_decode" % a, sz, u32, vp, sz)
    f("lzma_physmem", u64); f("lzma_cputhreads", u32)
    f("lzma_version_number", u32)
    _lib = L
    return L

def L():
    return _lib

# ---------------------------------------------------------------- helpers
def lzma_opts(preset=None, **kw):
    o = OptLzma()
    if preset is not None:
        if _lib.lzma_lzma_preset(C.byref(o), preset):
            raise ValueError("bad preset")
    else:
        _lib.lzma_lzma_preset(C.byref(o), 6)
    keep = []
    for k, v in kw.items():
        if k == "preset_dict":
            buf = C.create_string_buffer(bytes(v), len(v))
            keep.append(buf)
            o.preset_dict = C.cast(buf, C.c_void_p).value
            o.preset_dict_size = len(v)
        else:
            setattr(o, k, v)
    o._keep = keep
    return o

def make_filters(specs):
    """specs: list of (id, options-ctypes-struct-or-None). Returns (array, keepalive)."""
    arr = (Filter * (len(specs) + 1))()
    keep = []
    for n, (fid, opt) in enumerate(specs):
        arr[n].id = fid
        if opt is not None:
            keep.append(opt)
            arr[n].options = C.cast(C.pointer(opt), C.c_void_p).value
        else:
            arr[n].options = None
    arr[len(specs)].id = VLI_UNKNOWN
    arr[len(specs)].options = None
    arr._keep = keep
    return arr

GUARD = 32
GBYTE = 0xA5

class Buf:
    """A byte buffer with guard zones on both sides."""
    def __init__(self, size, fill=None):
        self.size = size
        self.raw = (C.c_ubyte * (size + 2 * GUARD))()
        C.memset(self.raw, GBYTE, size + 2 * GUARD)
        self.addr = C.addressof(self.raw) + GUARD
        if fill is not None:
            C.memmove(self.addr, bytes(fill), len(fill))
    def guards_ok(self):
        b = bytes(self.raw)
        return b[:GUARD] == bytes([GBYTE]) * GUARD and b[GUARD + self.size:] == bytes([GBYTE]) * GUARD
    def data(self, n=None, off=0):
        n = self.size - off if n is None else n
        return C.string_at(self.addr + off, n)

class CountingAllocator:
    """lzma_allocator that keeps a ledger; can fail the k-th allocation (1-based) or a set of ordinals."""
    def __init__(self, fail_at=(), record=None):
        self.libc = C.CDLL(None)
        self.libc.malloc.restype = C.c_void_p; self.libc.malloc.argtypes = [C.c_size_t]
        self.libc.free.argtypes = [C.c_void_p]
        self.live = {}
        self.n = 0
        self.fail_at = set(fail_at) if not callable(fail_at) else fail_at
        self.cur = 0; self.peak = 0
        self.errors = []
        self.record = record
        self.total_allocs = 0
        self._a = ALLOC_F(self._alloc); self._f = FREE_F(self._free)
        self.struct = Allocator(self._a, self._f, None)
    def _alloc(self, opaque, nmemb, size):
        self.n += 1
        sz = nmemb * size
        fail = self.fail_at(self.n) if callable(self.fail_at) else (self.n in self.fail_at)
        if fail:
            if self.record is not None:
                self.record.append({"e": "AllocFail", "n": self.n, "size": sz})
            return None
        p = self.libc.malloc(max(sz, 1))
        if not p:
            return None
        self.live[p] = sz
        self.cur += sz; self.peak = max(self.peak, self.cur)
        self.total_allocs += 1
        if self.record is not None:
            self.record.append({"e": "Alloc", "n": self.n, "size": sz, "id": len(self.live)})
        return p
    def _free(self, opaque, ptr):
        if not ptr:
            return
        if ptr not in self.live:
            self.errors.append("free of unknown pointer %x" % ptr)
            if self.record is not None:
                self.record.append({"e": "BadFree"})
            return
        self.cur -= self.live.pop(ptr)
        if self.record is not None:
            self.record.append({"e": "Free"})
        self.libc.free(ptr)
    def ptr(self):
        return C.pointer(self.struct)

class Coder:
    """An lzma_stream plus helpers. `strm` may be pre-initialised by the caller via init(fn,*args)."""
    def __init__(self, allocator=None):
        self.strm = Stream()
        self.alloc = allocator
        if allocator is not None:
            self.strm.allocator = allocator.ptr()
        self.events = []
    def init(self, fname, *args):
        r = getattr(_lib, fname)(C.byref(self.strm), *args)
        self.events.append({"e": "Init", "fn": fname, "ret": retname(r)})
        return r
    def end(self):
        _lib.lzma_end(C.byref(self.strm))
        self.events.append({"e": "End"})
    def code_raw(self, action):
        return _lib.lzma_code(C.byref(self.strm), action)

def run_coder(coder, data, in_slices=None, out_slices=None, finish_action=FINISH, out_cap=None,
              max_calls=1000000, record=False, run_then_finish=False, starve_tail=0):
    """Drive lzma_code over `data`.
    in_slices: iterable of chunk sizes (0 allowed = empty call); when exhausted, rest is given whole.
    out_slices: iterable of output grants per call; when exhausted, 'all remaining'.
    The final input piece is submitted with finish_action (unless run_then_finish: RUN until all consumed, then finish).
    Returns dict(ret, out, total_in, total_out, calls, rets, guard_ok).
    """
    s = coder.strm
    n = len(data)
    ib = Buf(n, data)
    cap = out_cap if out_cap is not None else max(4096, n * 8 + 65536)
    ob = Buf(cap)
    ip = 0; op = 0
    in_it = iter(in_slices) if in_slices is not None else iter(())
    out_it = iter(out_slices) if out_slices is not None else iter(())
    rets = []
    calls = 0
    ret = OK
    avail_in_cur = 0
    guard_ok = True
    evs = [] if record else None
    acct_ok = True
    in_done = in_slices is None
    out_done = out_slices is None
    while calls < max_calls:
        pend = s.avail_in if calls else 0
        try:
            k = next(in_it)
        except StopIteration:
            in_done = True
            k = n - ip - pend
        k = max(0, min(k, n - ip - pend))
        s.next_in = ib.addr + ip
        s.avail_in = pend + k
        try:
            g = next(out_it)
        except StopIteration:
            out_done = True
            g = cap - op
        g = min(g, cap - op)
        s.next_out = ob.addr + op
        s.avail_out = g
        last_piece = (ip + s.avail_in == n)
        if run_then_finish:
            action = finish_action if (last_piece and s.avail_in == 0) else RUN
        else:
            action = finish_action if last_piece else RUN
        b_in, b_out, b_ti, b_to = s.avail_in, s.avail_out, s.total_in, s.total_out
        ret = coder.code_raw(action)
        calls += 1
        used_in = b_in - s.avail_in; used_out = b_out - s.avail_out
        if (s.next_in or 0) != ib.addr + ip + used_in or (s.next_out or 0) != ob.addr + op + used_out \
           or s.total_in != b_ti + used_in or s.total_out != b_to + used_out or used_in < 0 or used_out < 0 \
           or used_in > b_in or used_out > b_out:
            acct_ok = False
        ip += used_in; op += used_out
        rets.append(ret)
        if record:
            evs.append({"e": "Code", "action": ACT[action], "ain": b_in, "aout": b_out, "uin": used_in,
                        "uout": used_out, "ret": retname(ret)})
        if not (ib.guards_ok() and ob.guards_ok()):
            guard_ok = False
        if ret not in (OK, BUF_ERROR):
            break
        if ret == BUF_ERROR and in_done and out_done and last_piece:
            break      # the driver has nothing more to offer: final verdict
    out = ob.data(op)
    return dict(ret=ret, out=out, total_in=s.total_in, total_out=s.total_out, calls=calls, rets=rets,
                guard_ok=guard_ok, acct_ok=acct_ok, consumed=ip, events=evs)

def simple_code_all(coder, data, action=FINISH, out_cap=None):
    """One-shot style: all input, big output buffer, loop until terminal."""
    return run_coder(coder, data, finish_action=action, out_cap=out_cap)
