"""Shared encoder driver of C01/C02: one configuration plan (emitted by TLC from spec/EncoderConfig.tla) + one
input -> the real liblzma encoder (ctypes) -> bytes; liblzma's own matching decoder; the independent glue
decoder/tokeniser; events for spec/TraceEncLz.tla, spec/TraceEncLzma2.tla and spec/TraceEncXzFile.tla.

Nothing here decides the properties: acceptance is decided by the TLA+ trace specs that read the events.

Conventions: 'flush' = full is mapped to LZMA_SYNC_FLUSH for raw/Block encoders (they have no LZMA_FULL_FLUSH) and
'sync' to LZMA_FULL_FLUSH for the threaded encoder; chains with a BCJ filter are fed in one piece without flushes, so that
the expected input of the LZMA2 encoder is the whole-buffer BCJ conversion of the independent filter code (a flush makes
the BCJ encoder pass its look-ahead bytes through unconverted, which is legal but not a function of the input alone).
A Block made by lzma_block_encoder / lzma_block_buffer_encode is completed to a Stream with liblzma's public
header / index / footer encoders so that one judge handles every .xz producer.
"""
import ctypes as C, hashlib, os, random, struct
from harness.pydrv import lz
from harness.glue import xz as gxz, lzma as glzma, lzma2 as glzma2, alone as galone, filters as gflt, crc as gcrc, \
    vli as gvli

MF = {"hc3": lz.MF_HC3, "hc4": lz.MF_HC4, "bt2": lz.MF_BT2, "bt3": lz.MF_BT3, "bt4": lz.MF_BT4}
MODE = {"fast": lz.MODE_FAST, "normal": lz.MODE_NORMAL}
XZ_ENTRIES = ("easy", "stream", "stream_mt", "block", "easy_buffer", "stream_buffer", "block_buffer", "index_enc")
LZMA1_ENTRIES = ("alone", "raw1", "raw1_buffer", "microlzma")
PRESET_ONLY = ("easy", "easy_buffer")
ALL_ENTRIES = XZ_ENTRIES + LZMA1_ENTRIES + ("raw2", "raw_buffer")
UPDATABLE = ("easy", "stream", "stream_mt", "raw2", "block")        # lzma_filters_update() is supported
SRF_TLEN = 5000
SRF_SLEN = ((SRF_TLEN - 8) // 4 + 1) * 12
LCLPPB_CORNERS = [(0, 0, 0), (4, 0, 4), (0, 4, 0), (1, 3, 2), (0, 2, 0), (3, 0, 2), (2, 2, 2)]

class EncError(Exception):
    """The encoder (or liblzma's decoder) did something C01 forbids; .key is the violation key."""
    def __init__(self, key, detail):
        Exception.__init__(self, detail)
        self.key = key; self.detail = detail

def dig(b):
    return hashlib.sha256(bytes(b)).hexdigest()[:24]

# ------------------------------------------------------------------------------------------- inputs
WORDS = [b"the ", b"quick ", b"brown ", b"fox ", b"jumps ", b"over ", b"lazy ", b"dog", b"\n", b"xz", b"lzma2 ",
         b"0123456789", b"aaaa", b"ab", b", ", b"Block ", b"Index "]

def gen_input(kind, n, rng, period=None):
    if n == 0:
        return b""
    if kind == "rand":
        return rng.randbytes(n) if hasattr(rng, "randbytes") else bytes(rng.getrandbits(8) for _ in range(n))
    if kind == "equal":
        return bytes([rng.randrange(256)]) * n
    if kind == "text":
        out = bytearray()
        while len(out) < n:
            out += rng.choice(WORDS)
        return bytes(out[:n])
    if kind == "periodic":
        p = max(1, period or 7)
        unit = bytes(rng.getrandbits(8) for _ in range(min(p, 1 << 20)))
        unit = (unit * (p // len(unit) + 1))[:p]
        b = bytearray((unit * (n // p + 1))[:n])
        # a few point mutations so that matches end and rep distances get used
        for _ in range(min(8, n // 64)):
            b[rng.randrange(n)] ^= 1 + rng.randrange(255)
        return bytes(b)
    if kind == "mixed":
        out = bytearray()
        while len(out) < n:
            c = rng.random()
            if c < 0.35:
                out += rng.choice(WORDS)
            elif c < 0.6:
                out += bytes(rng.getrandbits(8) for _ in range(rng.randint(1, 6)))
            elif c < 0.8 and len(out) > 4:
                d = rng.randint(1, min(len(out), 40)); k = rng.randint(2, 30)
                for _ in range(k):
                    out.append(out[-d])
            else:
                out += bytes([rng.randrange(256)]) * rng.randint(1, 12)
        return bytes(out[:n])
    if kind == "randmix":
        # incompressible with a few compressible islands: uncompressed chunks pending while the window slides
        b = bytearray(rng.randbytes(n))
        for _ in range(max(1, n // 150000)):
            o = rng.randrange(max(1, n - 3000)); ln = rng.randint(200, 3000)
            b[o:o + ln] = gen_input("text", min(ln, n - o), rng)
        return bytes(b)
    if kind == "srf":
        # S | R | F (chunk-boundary adversary): F = random bytes; S = the 8-byte pieces F[4k..4k+8) separated by four
        # random bytes, so every position of F has a short match ending a few bytes after the previous one: the
        # optimal parser looks ahead as far as it can; R = `period` random bytes.  The caller flushes after S
        # (plan["cuts"]), so the LZMA2 chunk under test starts exactly at R and `period` is the offset of F in it.
        tlen = SRF_TLEN
        F = rng.randbytes(tlen)
        S = bytearray()
        for k in range((tlen - 8) // 4 + 1):
            S += F[4 * k:4 * k + 8] + rng.randbytes(4)
        assert len(S) == SRF_SLEN
        return bytes(S) + rng.randbytes(period) + F
    if kind == "x86":
        # something a BCJ filter actually changes: CALL/JMP opcodes with small displacements
        out = bytearray()
        while len(out) < n:
            out += bytes([rng.choice([0xE8, 0xE9])]) + struct.pack("<i", rng.randint(-5000, 5000)) + \
                   bytes(rng.getrandbits(8) & 0x7F for _ in range(rng.randint(0, 7)))
        return bytes(out[:n])
    raise ValueError(kind)

# ------------------------------------------------------------------------------------------- plan -> options
_PD_CACHE = {}
def preset_dict_bytes(plan):
    """Deterministic preset dictionary of the plan (raw encoders only): 'small' = 300 bytes, 'huge' = longer than the
    encoder's whole window (so that only its tail may be used)."""
    kind = plan.get("pdict", "no")
    if kind in ("no", False, None) or plan["entry"] not in ("raw1", "raw2", "raw_buffer", "raw1_buffer"):
        return b""
    if kind not in _PD_CACHE:
        r = random.Random(7 if kind == "small" else 11)
        if kind == "small" or kind is True:
            _PD_CACHE[kind] = gen_input("mixed", 300, r)
        else:
            # position-stamped so that head and tail differ everywhere
            parts = []
            for i in range(720000 // 24):
                parts.append(b"%07d:" % i + r.choice(WORDS)[:6].ljust(6, b".") + bytes([r.getrandbits(8) for _ in range(10)]))
            _PD_CACHE[kind] = b"".join(parts)
    return _PD_CACHE[kind]

def splice_preset(data, pd, dict_size, rng):
    """Make the input refer to the part of the preset dictionary a decoder will have (its last dict_size bytes)."""
    if not pd or len(data) < 8:
        return data
    tail = pd[-min(len(pd), dict_size):]
    b = bytearray(data)
    for _ in range(1 + len(b) // 40):
        ln = rng.randint(4, min(60, len(tail), len(b)))
        so = rng.randint(0, len(tail) - ln)
        do = rng.randint(0, len(b) - ln)
        b[do:do + ln] = tail[so:so + ln]
    return bytes(b)

def resolve(plan):
    """-> dict(entry, preset32, check, opt (OptLzma or None), lc, lp, pb, dict_size, filters (list of (id, optstruct)),
    chain, pdict bytes, l1kind, keep)."""
    L = lz.L()
    e = plan["entry"]
    preset = int(plan["preset"]) | (lz.PRESET_EXTREME if plan.get("extreme") else 0)
    o = lz.OptLzma()
    if L.lzma_lzma_preset(C.byref(o), preset):
        raise ValueError("bad preset")
    info = dict(entry=e, preset32=preset, check=int(plan.get("check", 1)), chain=plan.get("chain", "lzma2"),
                l1kind=plan.get("l1kind", "lzma1"), pdict=b"")
    keep = []
    if e not in PRESET_ONLY and not (e == "stream_mt" and plan.get("mtpreset")):
        if plan.get("lclppb", "dflt") != "dflt":
            o.lc, o.lp, o.pb = [int(x) for x in plan["lclppb"].split("-")]
        if plan.get("mf", "dflt") != "dflt":
            o.mf = MF[plan["mf"]]
        if plan.get("mode", "dflt") != "dflt":
            o.mode = MODE[plan["mode"]]
        if plan.get("nice", "dflt") != "dflt":
            o.nice_len = int(plan["nice"])
        if plan.get("depth", "dflt") != "dflt":
            o.depth = int(plan["depth"])
        if plan.get("dict", "dflt") != "dflt":
            o.dict_size = int(plan["dict"])
        pd = preset_dict_bytes(plan)
        if pd:
            buf = C.create_string_buffer(pd, len(pd))
            keep.append(buf)
            o.preset_dict = C.cast(buf, C.c_void_p).value
            o.preset_dict_size = len(pd)
            info["pdict"] = pd
    info.update(opt=o, lc=o.lc, lp=o.lp, pb=o.pb, dict_size=o.dict_size)
    # filter chain
    specs = []
    if e in LZMA1_ENTRIES:
        fid = lz.FILTER_LZMA1
        if e != "alone" and e != "microlzma" and info["l1kind"] != "lzma1":
            fid = lz.FILTER_LZMA1EXT
            o.ext_flags = 1 if info["l1kind"] == "ext_eopm" else 0
            o.ext_size_low = 0xFFFFFFFF; o.ext_size_high = 0xFFFFFFFF     # "The size is ignored by the encoder"
        else:
            info["l1kind"] = "lzma1"
        specs = [(fid, o)]
        info["chain"] = "lzma1"
    else:
        ch = info["chain"] if e not in PRESET_ONLY and not (e == "stream_mt" and plan.get("mtpreset")) else "lzma2"
        info["chain"] = ch
        if ch == "delta":
            d = lz.OptDelta(); d.type = 0; d.dist = int(plan.get("ddist", 1)); specs.append((lz.FILTER_DELTA, d))
        elif ch == "x86":
            specs.append((lz.FILTER_X86, None))
        elif ch == "arm64delta":
            specs.append((lz.FILTER_ARM64, None))
            d = lz.OptDelta(); d.type = 0; d.dist = int(plan.get("ddist", 4)); specs.append((lz.FILTER_DELTA, d))
        specs.append((lz.FILTER_LZMA2, o))
    info["specs"] = specs
    info["filters"] = lz.make_filters(specs)
    info["keep"] = keep
    return info

def glue_prefilters(info):
    """[(filter id, props bytes)] of the non-last filters, outermost first (glue.filters notation)."""
    out = []
    for fid, opt in info["specs"][:-1]:
        if fid == lz.FILTER_DELTA:
            out.append((fid, bytes([opt.dist - 1])))
        else:
            out.append((fid, b""))
    return out

def _prefilter(pre, data):
    for fid, props in pre:
        data = gflt.apply_nonlast(fid, props, data, True)
    return data

def apply_prefilters(info, data, encode=True):
    fl = glue_prefilters(info)
    for fid, props in (fl if encode else reversed(fl)):
        data = gflt.apply_nonlast(fid, props, data, encode)
    return data

# ------------------------------------------------------------------------------------------- multi-call loop
def code_segments(coder, data, segs, out_cap, out_grant=None, rng=None, before_seg=None):
    """segs: [(length, action)] covering data; every segment is fed (optionally in pieces) with LZMA_RUN and then
    its action is repeated until LZMA_STREAM_END (flush / finish) - action RUN just feeds.
    Returns (ret, out bytes, flush boundaries [out offsets])."""
    s = coder.strm
    n = len(data)
    ib = lz.Buf(n, data)
    ob = lz.Buf(out_cap)
    ip = op = 0
    marks = []
    ret = lz.OK
    for k, (ln, action) in enumerate(segs):
        if before_seg is not None:
            before_seg(k)          # e.g. lzma_filters_update() between two flushed pieces
        end = ip + ln
        guard = 0
        while True:
            guard += 1
            if guard > 4000000:
                raise EncError("enc:livelock", "encoder made no progress")
            s.next_in = ib.addr + ip
            s.avail_in = end - ip
            grant = out_cap - op if not out_grant else min(out_cap - op, out_grant())
            s.next_out = ob.addr + op
            s.avail_out = grant
            a = action if action != lz.RUN else lz.RUN
            ret = coder.code_raw(a)
            ip = end - s.avail_in
            op += grant - s.avail_out
            if ret == lz.STREAM_END:
                break
            if ret != lz.OK:
                if ret == lz.BUF_ERROR and op < out_cap and (grant == 0 or s.avail_out == 0):
                    continue            # our own tiny output grant; try again
                return ret, ob.data(op), marks, ip
            if action == lz.RUN and ip == end:
                break
            if op >= out_cap:
                return lz.BUF_ERROR, ob.data(op), marks, ip
        if not (ib.guards_ok() and ob.guards_ok()):
            raise EncError("enc:guard", "encoder wrote outside the buffers it was given")
        if ib.data() != data:
            raise EncError("enc:input_modified", "encoder modified its input buffer")
        marks.append(op)
    return ret, ob.data(op), marks, ip

def segments_for(plan, n, rng):
    """Cut the input into segments according to plan['flush'] ('none' | 'sync' | 'full')."""
    fl = plan.get("flush", "none")
    if fl == "none" or n < 2:
        return [(n, lz.FINISH)]
    act = lz.SYNC_FLUSH if fl == "sync" else lz.FULL_FLUSH
    if plan.get("cuts"):                       # explicit flush positions (chunk-boundary sweep)
        segs = []; prev = 0
        for c in plan["cuts"]:
            segs.append((c - prev, act)); prev = c
        return segs + [(n - prev, lz.FINISH)]
    k = 1 if n < 50 else rng.randint(1, 3)
    cuts = sorted(set(rng.randint(1, n - 1) for _ in range(k)))
    segs = []
    prev = 0
    for c in cuts:
        segs.append((c - prev, act)); prev = c
    segs.append((n - prev, lz.FINISH))
    return segs

class Run:
    pass

def out_bound(n):
    return n + n // 3 + 4096

def encode(plan, data, bias=0, seed=1):
    """Encode `data` according to `plan` with the real library (whatever build lz.load() loaded).
    Returns Run(plan, info, data, ret, out, consumed, kind, segs).  Raises EncError for behaviour that is a violation by
    itself (encoder refuses a valid configuration, no progress, buffer overrun)."""
    L = lz.L()
    rng = random.Random(seed)
    info = resolve(plan)
    e = info["entry"]
    n = len(data)
    R = Run()
    R.plan, R.info, R.data = plan, info, data
    R.limit = None
    R.blockinfo = None
    hook = C.c_uint32.in_dll(L, "lzma_verif_mf_normalize_after")
    hook.value = bias
    try:
        cap = out_bound(n)
        outslice = plan.get("oslice", "whole")
        grant = None
        if outslice == "small":
            grant = lambda: rng.choice([1, 2, 7, 64, 1000])
        elif outslice == "ones":
            grant = lambda: 1                      # every output byte in its own lzma_code() call
        if plan.get("ogrants"):                    # explicit output grants, then everything
            _g = list(plan["ogrants"])
            grant = lambda: (_g.pop(0) if _g else 1 << 30)
        def init_check(r, what):
            if r != lz.OK:
                raise EncError("enc:init:%s:%s" % (e, lz.retname(r)), "%s refused a valid configuration: %s plan=%r" % (
                    what, lz.retname(r), plan))
        if e in ("easy", "stream", "stream_mt", "alone", "raw1", "raw2", "block", "microlzma"):
            c = lz.Coder()
            segs = segments_for(plan, n, rng) if e in ("easy", "stream", "raw2", "block", "stream_mt") else [(n, lz.FINISH)]
            if e == "stream_mt":     # no LZMA_SYNC_FLUSH in the threaded encoder
                segs = [(ln, lz.FULL_FLUSH if a == lz.SYNC_FLUSH else a) for ln, a in segs]
            if e in ("raw2", "block"):   # no LZMA_FULL_FLUSH in raw / Block encoders
                segs = [(ln, lz.SYNC_FLUSH if a == lz.FULL_FLUSH else a) for ln, a in segs]
            if info["chain"] in ("x86", "arm64delta"):
                segs = [(n, lz.FINISH)]       # keep the BCJ filter's view of the data one piece (see encrun docstring)
            def do_init():
                nonlocal cap, grant
                if e == "easy":
                    init_check(c.init("lzma_easy_encoder", info["preset32"], info["check"]), "lzma_easy_encoder")
                elif e == "stream":
                    init_check(c.init("lzma_stream_encoder", info["filters"], info["check"]), "lzma_stream_encoder")
                elif e == "stream_mt":
                    mt = lz.Mt(); mt.threads = int(plan.get("threads", 2)); mt.block_size = int(plan.get("bsize", 0))
                    mt.check = info["check"]; mt.timeout = 0
                    if plan.get("mtpreset"):
                        mt.preset = info["preset32"]
                    else:
                        mt.filters = C.cast(info["filters"], C.POINTER(lz.Filter))
                    c.keep = mt
                    init_check(c.init("lzma_stream_encoder_mt", C.byref(mt)), "lzma_stream_encoder_mt")
                elif e == "alone":
                    init_check(c.init("lzma_alone_encoder", C.byref(info["opt"])), "lzma_alone_encoder")
                elif e in ("raw1", "raw2"):
                    init_check(c.init("lzma_raw_encoder", info["filters"]), "lzma_raw_encoder")
                elif e == "block":
                    b = lz.Block(); b.version = 1; b.check = info["check"]
                    b.filters = C.cast(info["filters"], C.POINTER(lz.Filter))
                    b.compressed_size = lz.VLI_UNKNOWN; b.uncompressed_size = lz.VLI_UNKNOWN
                    init_check(L.lzma_block_header_size(C.byref(b)), "lzma_block_header_size")
                    # like stream_encoder.c: the header is written before the data, with unknown sizes
                    hb = lz.Buf(b.header_size)
                    init_check(L.lzma_block_header_encode(C.byref(b), hb.addr), "lzma_block_header_encode")
                    if not hb.guards_ok():
                        raise EncError("enc:guard", "lzma_block_header_encode wrote outside header_size")
                    R.blockhdr = hb.data()
                    init_check(c.init("lzma_block_encoder", C.byref(b)), "lzma_block_encoder")
                    R.blockinfo = b
                    c.keep_blocks = getattr(c, "keep_blocks", []) + [b]
                elif e == "microlzma":
                    init_check(c.init("lzma_microlzma_encoder", C.byref(info["opt"])), "lzma_microlzma_encoder")
                    lim = plan.get("limit", "big")
                    if lim == "big":
                        cap = out_bound(n) + 16          # plenty of room: everything must be encoded
                    else:
                        cap = max(6, int(lim))
                        R.limit = cap
                    grant = None
            hist = plan.get("history", "fresh")
            R.history = hist
            if hist != "fresh":
                # an earlier session on the SAME lzma_stream, abandoned without lzma_end(): the re-initialised encoder
                # must behave like a fresh one (the caller compares with the output of a fresh handle)
                do_init()
                junk = gen_input("mixed", 3000, random.Random(seed + 5))
                bs_ = int(plan.get("bsize", 0) or 0)
                if e == "stream_mt" and bs_:
                    junk = junk[:max(1, min(len(junk), bs_ - 1))]      # keep the Block open
                jb = lz.Buf(len(junk), junk); job = lz.Buf(out_bound(len(junk)) + 64)
                st = c.strm
                st.next_in = jb.addr; st.avail_in = len(junk); st.next_out = job.addr
                if e == "microlzma":
                    st.avail_out = job.size; c.code_raw(lz.FINISH)                     # only LZMA_FINISH is supported
                elif hist == "header":
                    st.avail_out = 5; c.code_raw(lz.RUN)                               # stopped inside the first header
                elif hist == "mid":
                    st.avail_out = job.size; c.code_raw(lz.RUN)                        # input consumed, Block/stream open
                else:                                                                  # "flushed"
                    st.avail_out = job.size
                    # a finished Block (Index record) on the .xz stream encoders every other time, else a finished chunk
                    act = lz.FULL_FLUSH if e == "stream_mt" or (e in ("easy", "stream") and seed % 2) else (
                        lz.SYNC_FLUSH if e in ("easy", "stream", "raw2", "block") else lz.FINISH)
                    for _ in range(1000):
                        r_ = c.code_raw(act)
                        if r_ != lz.OK:
                            break
                    # (whatever it returned - e.g. LZMA_OPTIONS_ERROR for LZMA_SYNC_FLUSH with a BCJ filter - the session
                    # is abandoned; the re-initialised encoder must work all the same)
                if not (jb.guards_ok() and job.guards_ok()):
                    raise EncError("enc:guard", "encoder wrote outside the buffers it was given (abandoned session)")
                c.keep_junk = (jb, job)
            do_init()
            before = None
            R.update = None
            if plan.get("update", "none") == "props" and e in UPDATABLE:
                # lzma_filters_update() with different lc/lp/pb: after the first flushed piece, or before any input
                # when nothing is flushed
                cur = (info["lc"], info["lp"], info["pb"])
                nlc, nlp, npb = rng.choice([x for x in LCLPPB_CORNERS if x != cur])
                o2 = lz.OptLzma.from_buffer_copy(bytes(info["opt"]))
                o2.lc, o2.lp, o2.pb = nlc, nlp, npb
                chain2 = lz.make_filters([(fid, o2 if fid == lz.FILTER_LZMA2 else opt) for fid, opt in info["specs"]])
                at_seg = 1 if len(segs) > 1 else 0
                R.update = dict(at=segs[0][0] if at_seg else 0, lc=nlc, lp=nlp, pb=npb)
                def before(k, c=c, chain2=chain2, at_seg=at_seg):
                    if k == at_seg:
                        r = L.lzma_filters_update(C.byref(c.strm), chain2)
                        if r != lz.OK:
                            raise EncError("enc:filters_update:%s:%s" % (e, lz.retname(r)),
                                           "lzma_filters_update() with new lc/lp/pb refused at a legal point: %s plan=%r" % (
                                               lz.retname(r), plan))
            ret, out, marks, ip = code_segments(c, data, segs, cap, grant, rng, before)
            R.total_in = c.strm.total_in; R.total_out = c.strm.total_out
            c.end()
            R.ret, R.out, R.consumed, R.segs = ret, out, ip, segs
            if e == "microlzma":
                R.consumed = R.total_in
            if R.total_out != len(out) or (e != "microlzma" and R.total_in != ip):
                raise EncError("enc:totals:%s" % e, "total_in/total_out %d/%d do not match the bytes moved %d/%d" % (
                    R.total_in, R.total_out, ip, len(out)))
        elif e == "index_enc":
            encode_index_enc(R, plan, info, data, grant)
        else:
            # single-call encoders
            ob = lz.Buf(cap)
            ib = lz.Buf(n, data)
            pos = C.c_size_t(0)
            if e == "easy_buffer":
                ret = L.lzma_easy_buffer_encode(info["preset32"], info["check"], None, ib.addr, n, ob.addr, C.byref(pos), cap)
            elif e == "stream_buffer":
                ret = L.lzma_stream_buffer_encode(info["filters"], info["check"], None, ib.addr, n, ob.addr, C.byref(pos), cap)
            elif e == "block_buffer":
                b = lz.Block(); b.version = 1; b.check = info["check"]
                b.filters = C.cast(info["filters"], C.POINTER(lz.Filter))
                ret = L.lzma_block_buffer_encode(C.byref(b), None, ib.addr, n, ob.addr, C.byref(pos), cap)
                R.blockinfo = b
            elif e in ("raw_buffer", "raw1_buffer"):
                ret = L.lzma_raw_buffer_encode(info["filters"], None, ib.addr, n, ob.addr, C.byref(pos), cap)
            else:
                raise ValueError(e)
            if not (ib.guards_ok() and ob.guards_ok()):
                raise EncError("enc:guard", "single-call encoder wrote outside the buffers it was given")
            R.ret = lz.STREAM_END if ret == lz.OK else ret
            R.out = ob.data(pos.value); R.consumed = n; R.segs = [(n, lz.FINISH)]
            R.total_in = n; R.total_out = pos.value
    finally:
        hook.value = 0
    if R.ret != lz.STREAM_END:
        raise EncError("enc:ret:%s:%s" % (e, lz.retname(R.ret)), "encoder returned %s (plan=%r, %d input bytes)" % (
            lz.retname(R.ret), plan, n))
    R.kind = "xz" if e in XZ_ENTRIES else {"alone": "alone", "microlzma": "micro", "raw1": "raw1", "raw1_buffer": "raw1",
                                             "raw2": "raw2", "raw_buffer": "raw2"}[e]
    if e in ("block", "block_buffer"):
        R.body = R.out
        R.out = wrap_block(R)
    return R

def encode_index_enc(R, plan, info, data, grant):
    """Entry 'index_enc': Blocks from lzma_block_buffer_encode (plan['nblocks'] equal pieces), the Index from the
    multi-call lzma_index_encoder driven with the plan's output grants, Stream Header/Footer from the public encoders."""
    L = lz.L()
    nb = max(1, int(plan.get("nblocks", 1)))
    n = len(data)
    cuts = [n * k // nb for k in range(nb + 1)]
    sf = lz.StreamFlags(); sf.version = 0; sf.check = info["check"]
    hdr = lz.Buf(12)
    if L.lzma_stream_header_encode(C.byref(sf), hdr.addr) != lz.OK:
        raise EncError("enc:stream_header_encode", "lzma_stream_header_encode failed")
    idx = L.lzma_index_init(None)
    body = b""
    try:
        for k in range(nb):
            piece = data[cuts[k]:cuts[k + 1]]
            b = lz.Block(); b.version = 1; b.check = info["check"]
            b.filters = C.cast(info["filters"], C.POINTER(lz.Filter))
            cap = L.lzma_block_buffer_bound(len(piece))
            ob = lz.Buf(cap); ib = lz.Buf(len(piece), piece); pos = C.c_size_t(0)
            r = L.lzma_block_buffer_encode(C.byref(b), None, ib.addr, len(piece), ob.addr, C.byref(pos), cap)
            if r != lz.OK or not ob.guards_ok():
                raise EncError("enc:ret:block_buffer:%s" % lz.retname(r), "lzma_block_buffer_encode failed with out_size = bound")
            body += ob.data(pos.value)
            r = L.lzma_index_append(idx, None, L.lzma_block_unpadded_size(C.byref(b)), b.uncompressed_size)
            if r != lz.OK:
                raise EncError("enc:index_append:" + lz.retname(r), "lzma_index_append failed")
        isz = L.lzma_index_size(idx)
        c = lz.Coder()
        r = c.init("lzma_index_encoder", idx)
        if r != lz.OK:
            raise EncError("enc:init:index_enc:" + lz.retname(r), "lzma_index_encoder refused the Index")
        ob = lz.Buf(isz + 64); op = 0
        st = c.strm
        for _ in range(10 * (isz + 64)):
            g = min(isz + 64 - op, grant() if grant else isz + 64)
            st.next_in = None; st.avail_in = 0
            st.next_out = ob.addr + op; st.avail_out = g
            r = c.code_raw(lz.RUN)
            op += g - st.avail_out
            if r != lz.OK and not (r == lz.BUF_ERROR and g == 0):
                break
        c.end()
        if not ob.guards_ok():
            raise EncError("enc:guard", "lzma_index_encoder wrote outside the buffer")
        R.ret = r
        sf.backward_size = isz
        ftr = lz.Buf(12)
        if L.lzma_stream_footer_encode(C.byref(sf), ftr.addr) != lz.OK:
            raise EncError("enc:stream_footer_encode", "lzma_stream_footer_encode failed")
        R.out = hdr.data() + body + ob.data(op) + ftr.data()
    finally:
        L.lzma_index_end(idx, None)
    R.consumed = n; R.segs = [(n, lz.FINISH)]; R.total_in = n; R.total_out = len(R.out)

# ------------------------------------------------------------------------------------------- Block -> Stream
def wrap_block(R):
    """A Block produced by lzma_block_encoder / lzma_block_buffer_encode is completed to a Stream with the public
    header/index/footer encoders of liblzma (all of them anchors of C02), so that one judge handles everything."""
    L = lz.L()
    b = R.blockinfo
    e = R.info["entry"]
    sf = lz.StreamFlags(); sf.version = 0; sf.check = R.info["check"]
    hdr = lz.Buf(12)
    if L.lzma_stream_header_encode(C.byref(sf), hdr.addr) != lz.OK:
        raise EncError("enc:stream_header_encode", "lzma_stream_header_encode failed")
    block = (R.blockhdr + R.body) if e == "block" else R.body
    unpadded = L.lzma_block_unpadded_size(C.byref(b))
    idx = L.lzma_index_init(None)
    r = L.lzma_index_append(idx, None, unpadded, b.uncompressed_size)
    if r != lz.OK:
        L.lzma_index_end(idx, None)
        raise EncError("enc:index_append:" + lz.retname(r), "lzma_index_append(%d, %d) failed" % (unpadded, b.uncompressed_size))
    isz = L.lzma_index_size(idx)
    ibuf = lz.Buf(isz)
    ipos = C.c_size_t(0)
    r = L.lzma_index_buffer_encode(idx, ibuf.addr, C.byref(ipos), isz)
    L.lzma_index_end(idx, None)
    if r != lz.OK or ipos.value != isz or not ibuf.guards_ok():
        raise EncError("enc:index_buffer_encode", "lzma_index_buffer_encode: ret %s pos %d size %d" % (lz.retname(r), ipos.value, isz))
    sf.backward_size = isz
    ftr = lz.Buf(12)
    if L.lzma_stream_footer_encode(C.byref(sf), ftr.addr) != lz.OK:
        raise EncError("enc:stream_footer_encode", "lzma_stream_footer_encode failed")
    return hdr.data() + block + ibuf.data() + ftr.data()

# ------------------------------------------------------------------------------------------- liblzma's decoder
def _decode_loop(c, data, cap):
    res = lz.run_coder(c, data, out_cap=cap)
    c.end()
    return res

def lib_decode(R):
    """Decode R.out with the matching decoder of the same library. -> (retname, bytes)"""
    L = lz.L()
    info = R.info
    cap = len(R.data) + 4096
    c = lz.Coder()
    k = R.kind
    if k == "xz":
        r = c.init("lzma_stream_decoder", lz.UINT64_MAX, 0)
    elif k == "alone":
        r = c.init("lzma_alone_decoder", lz.UINT64_MAX)
    elif k == "micro":
        r = c.init("lzma_microlzma_decoder", len(R.out), R.consumed, 1, info["dict_size"])
    else:
        specs = []
        for fid, opt in info["specs"]:
            if fid == lz.FILTER_LZMA1EXT:
                # decoder side of LZMA1EXT: the size must be known when there is no end marker (the encoder is done
                # with the options structure, so it can be reused)
                opt.ext_size_low = R.consumed & 0xFFFFFFFF; opt.ext_size_high = R.consumed >> 32
            specs.append((fid, opt))
        f = lz.make_filters(specs)
        c.keep = f
        r = c.init("lzma_raw_decoder", f)
    if r != lz.OK:
        return "INIT_" + lz.retname(r), b""
    res = _decode_loop(c, R.out, cap)
    if res["ret"] == lz.STREAM_END and res["consumed"] != len(R.out):
        return "TRAILING", res["out"]
    # raw LZMA1 with unknown size and no marker cannot signal the end: not used (l1kind ext_noeopm sets the size)
    return lz.retname(res["ret"]), res["out"]

# ------------------------------------------------------------------------------------------- tokenise -> events
def sym_events(symbols, ev):
    """Append EncLz events for a glue symbol list (literal runs are merged)."""
    run = []
    for s in symbols:
        k = s[0]
        if k == 'lit':
            run.append(s[1]); continue
        if run:
            ev.append({"e": "Lits", "b": run}); run = []
        if k == 'match':
            ev.append({"e": "Match", "d": s[1], "n": s[2]})
        elif k == 'rep':
            ev.append({"e": "Rep", "i": s[1], "n": s[2]})
        elif k == 'shortrep':
            ev.append({"e": "SRep"})
        elif k == 'eopm':
            ev.append({"e": "Eopm", "n": -1})       # length filled in by the caller
    if run:
        ev.append({"e": "Lits", "b": run})

def agg_event(st, outlen, used):
    return {"e": "Agg", "lit": st["lit"], "match": st["match"], "rep": sum(st["rep"]), "srep": st["shortrep"],
            "eopm": st["eopm"], "maxdist": st["max_dist"], "maxlen": st["max_len"],
            "minslack": -1 if st["min_slack"] is None else st["min_slack"], "outlen": outlen, "used": used}

BYTES_MAX = 400          # inputs up to this size are judged byte-exactly inside TLC

def lz_executions(R, libret, libout, mode=None):
    """-> [(label, 'lzma1'|'lzma2', [events])]: one execution per LZ stream in R.out (one per Block for .xz).
    `mode`: 'bytes' | 'agg' | None (by size)."""
    info = R.info
    data = R.data
    e = info["entry"]
    if mode is None:
        mode = "bytes" if len(data) <= BYTES_MAX and len(info["pdict"]) <= BYTES_MAX else "agg"
    label = plan_label(R.plan) + "/n%d" % len(data)
    collect = 'full' if mode == "bytes" else 'stats'
    pd = info["pdict"]
    ex = []
    common = dict(dict=info["dict_size"], mode=mode, presetlen=len(pd), preset=list(pd) if mode == "bytes" else [],
                  lc=info["lc"], lp=info["lp"], pb=info["pb"], encdig=dig(R.out), enclen=len(R.out), id=label)
    if R.kind in ("alone", "raw1", "micro"):
        payload = R.out
        usize = None
        allow_eopm = True
        eopm = "yes"
        consumed = R.consumed
        if R.kind == "alone":
            payload = R.out[13:]
        elif R.kind == "micro":
            if len(R.out) < 1:
                raise EncError("enc:micro:empty", "MicroLZMA output is empty")
            payload = b"\x00" + R.out[1:]
            usize = R.consumed; allow_eopm = False; eopm = "no"
        elif info["l1kind"] == "ext_noeopm":
            usize = len(data); allow_eopm = False; eopm = "no"
        r = glzma.decode(payload, info["lc"], info["lp"], info["pb"], info["dict_size"], usize=usize,
                         preset_dict=pd, allow_eopm=allow_eopm, collect=collect)
        gstatus = "ok" if (r.status in ("ok_eopm", "ok_size") and r.consumed == len(payload)
                           and (r.status == "ok_eopm") == (eopm == "yes")) else "%s:%d/%d" % (r.status, r.consumed, len(payload))
        ev = [dict(common, e="Reset", input=list(data) if mode == "bytes" else [], inlen=len(data), eopm=eopm,
                   limited=R.limit is not None, limit=R.limit or 0)]
        if mode == "bytes":
            sym_events(r.symbols or [], ev)
            for x in ev:
                if x["e"] == "Eopm":
                    x["n"] = r.eopm_len if r.eopm_len is not None else -1
        else:
            ev.append(agg_event(r.stats, len(r.out), r.consumed))
        ex.append([label, "lzma1", ev, dict(consumed=consumed, indig=dig(data[:consumed]), gluelen=len(r.out), gluedig=dig(r.out),
                                            gluestatus=gstatus, liblen=len(libout), libdig=dig(libout), libret=libret)])
        R.glue_out = r.out
        return ex
    # ---- LZMA2: raw or per Block
    if R.kind == "raw2":
        r2 = glzma2.decode(R.out, info["dict_size"], preset_dict=pd, collect=collect)
        blocks = [dict(l2=r2, l2len=len(R.out), slice=data, pre=glue_prefilters(info))]
        R.glue_out = apply_prefilters(info, r2.out, encode=False)
        gl_status = r2.status if r2.consumed == len(R.out) else "trailing"
    else:
        P = gxz.parse(R.out, collect=collect)
        R.parse = P
        R.glue_out = P.output
        blocks = []
        off = 0
        for S in P.streams:
            for B in S["blocks"]:
                if "lzma2" not in B or "out_size" not in B:
                    continue
                sz = B["out_size"]
                blocks.append(dict(l2=B["lzma2"], l2len=B.get("data_size", -1), slice=data[off:off + sz],
                                   pre=B["filters"][:-1]))
                off += sz
        gl_status = P.verdict
    upd = getattr(R, "update", None)
    nb = len(blocks)
    if nb == 0:
        # a Stream without Blocks: legal only for empty input (TraceEncLzma2!TEmpty)
        ev = [dict(common, e="Reset", input=list(data) if mode == "bytes" else [], inlen=len(data), indig=dig(data),
                   l2len=0, id=label + "/noblock"), {"e": "Empty"}]
        ex.append([label + "/noblock", "lzma2", ev,
                   dict(used=0, gluelen=len(R.glue_out), gluedig=dig(R.glue_out), gluestatus="ok" if gl_status == "ok" else gl_status,
                        liblen=len(libout), libdig=dig(libout), libret=libret)])
    for bi, B in enumerate(blocks):
        r2 = B["l2"]
        sl = B["slice"]
        # what the LZMA2 encoder of this Block was fed: the slice after the non-last filters that the Block Header
        # declares (the single-call encoders fall back to a plain LZMA2 chain with uncompressed chunks)
        fin = _prefilter(B["pre"], sl)
        ev = [dict(common, e="Reset", input=list(fin) if mode == "bytes" else [], inlen=len(fin), indig=dig(fin),
                   l2len=B["l2len"], id="%s/b%d" % (label, bi))]
        boff = sum(len(b["slice"]) for b in blocks[:bi])
        pending = None
        if upd is not None:
            if upd["at"] <= boff:
                ev[0].update(lc=upd["lc"], lp=upd["lp"], pb=upd["pb"])      # in force from the start of this Block
            elif upd["at"] < boff + len(sl):
                pending = {"e": "Update", "at": upd["at"] - boff, "lc": upd["lc"], "lp": upd["lp"], "pb": upd["pb"]}
        cum = 0
        for ck in r2.chunks:
            if pending is not None and cum >= pending["at"]:
                ev.append(pending); pending = None
            cum += (ck["usize"] or 0) if ck["kind"] in ("lzma", "uncompressed") else 0
            if ck["kind"] == "end":
                ev.append({"e": "Chunk", "kind": "end"})
            elif ck["kind"] == "uncompressed":
                d = {"e": "Chunk", "kind": "unc", "ctl": ck["control"], "usize": ck["usize"] if ck["usize"] is not None else -1}
                if mode == "bytes":
                    o = ck["offset"] + 3
                    src = R.out if R.kind == "raw2" else None
                    d["data"] = list(_chunk_payload(R, B, ck))
                else:
                    d["data"] = []
                ev.append(d)
            elif ck["kind"] == "lzma":
                ev.append({"e": "Chunk", "kind": "lzma", "ctl": ck["control"], "usize": ck["usize"] if ck["usize"] is not None else -1,
                           "csize": ck["csize"] if ck["csize"] is not None else -1,
                           "props": -1 if ck["props"] is None else ck["props"]})
                if ck["stats"] is None:
                    continue
                if mode == "bytes":
                    sym_events(ck["symbols"] or [], ev)
                    ev.append({"e": "ChunkEnd", "used": ck["csize"] if ck["status"] == "ok" else -1})
                else:
                    ev.append(agg_event(ck["stats"], ck["out_len"], ck["csize"] if ck["status"] == "ok" else -1))
            else:
                ev.append({"e": "Chunk", "kind": "invalid", "ctl": ck["control"]})
        end = dict(used=r2.consumed, gluelen=len(r2.out), gluedig=dig(r2.out),
                   gluestatus="ok" if (r2.status == "ok" and gl_status == "ok") else "%s/%s" % (r2.status, gl_status))
        # liblzma's decoder sees the whole container; its verdict is attached to every Block's execution, its bytes
        # are compared per Block after the glue's independent un-filtering is applied the other way round
        lo = libout[sum(len(b["slice"]) for b in blocks[:bi]):][:len(sl)]
        lof = _prefilter(B["pre"], lo)
        end.update(liblen=len(lof), libdig=dig(lof), libret=libret)
        ex.append(["%s/b%d" % (label, bi), "lzma2", ev, end])
    R.nblocks = nb
    return ex

def _chunk_payload(R, B, ck):
    """bytes of an uncompressed chunk, cut from the encoder's output (offset known from the glue chunk record)."""
    # position of the LZMA2 stream inside R.out
    if R.kind == "raw2":
        base = 0
    else:
        base = None
        for S in R.parse.streams:
            for BB in S["blocks"]:
                if BB.get("lzma2") is B["l2"]:
                    base = BB["data_offset"]
    o = base + ck["offset"] + 3
    return R.out[o:o + (ck["usize"] or 0)]

def plan_label(p):
    keys = ("entry", "preset", "extreme", "lclppb", "mf", "mode", "nice", "depth", "dict", "pdict", "check", "chain",
            "bsize", "threads", "flush", "oslice", "l1kind", "limit", "mtpreset")
    return ",".join("%s" % (p.get(k),) for k in keys if k in p)

# ------------------------------------------------------------------------------------------- file-level events
def hexs(b):
    return bytes(b).hex()

def _split_name(name):
    """glue field name -> (g, f, k) of spec/EncXzFile.tla."""
    parts = name.split(".")
    k = -1
    if len(parts) >= 2 and parts[1] == "header" and len(parts) == 3:
        return "sheader", parts[2], k
    if len(parts) >= 3 and parts[1].startswith("b") and parts[2] == "header":
        if len(parts) == 5:         # s0.b0.header.f1.id
            k = int(parts[3][1:])
            return "bheader", {"id": "fid", "props_size": "fpsize", "props": "fprops"}[parts[4]], k
        return "bheader", parts[3], k
    if len(parts) == 3 and parts[1].startswith("b"):
        return "block", parts[2], k
    if parts[1] == "index":
        if len(parts) == 4:
            return "index", parts[3], int(parts[2][1:])
        return "index", parts[2], k
    if parts[1] == "footer":
        return "footer", parts[2], k
    if parts[1] == "padding":
        return "spad", "padding", k
    return "?", name, k

def file_reset(R, label):
    info = R.info
    fids, fps, fpr = [], [], []
    for fid, opt in info["specs"]:
        fids.append(int(fid) if fid < (1 << 31) else -1)
        if fid == lz.FILTER_DELTA:
            fps.append(1); fpr.append("%02x" % (opt.dist - 1))
        elif fid == lz.FILTER_LZMA2:
            fps.append(1); fpr.append("")
        else:
            fps.append(0); fpr.append("")
    return {"e": "Reset", "fmt": "xz" if R.kind == "xz" else "lzma", "id": label, "flen": len(R.out), "inlen": len(R.data),
            "indig": dig(R.data), "dict": info["dict_size"], "check": info["check"], "lc": info["lc"], "lp": info["lp"],
            "pb": info["pb"], "nfilters": len(info["specs"]), "fids": fids, "fpsizes": fps, "fprops": fpr,
            "entry": info["entry"]}

def field_events(P, out):
    """XzResult + file bytes -> normalized F events (every event has every field) and the EOF event."""
    bmeta = {}
    for si, S in enumerate(P.streams):
        for bi, B in enumerate(S["blocks"]):
            md = 0
            l2 = B.get("lzma2")
            if l2 is not None:
                for ck in l2.chunks:
                    if ck.get("stats"):
                        md = max(md, ck["stats"]["max_dist"])
            n = len(bmeta)
            bmeta["s%d.b%d" % (si, bi)] = dict(maxdist=md, usize=B.get("out_size", -1),
                                                 data=P.outputs[n] if n < len(P.outputs) else b"")
    offs = {nm: o for nm, o, ln, val in P.events}
    ev = []
    for name, o, ln, val in P.events:
        g, f, k = _split_name(name)
        d = {"e": "F", "g": g, "f": f, "k": k, "o": o, "l": ln, "v": -1, "x": "", "z": False, "calc": "", "b0": -1, "b1": -1,
             "usize": -1, "maxdist": -1, "n": name, "bad": False}
        raw = out[o:o + ln]
        if isinstance(val, int):
            if f == "crc32":
                d["x"] = "%08x" % val
            elif val < (1 << 31):
                d["v"] = val
        if f != "data":
            d["z"] = not any(raw)
            if ln <= 64 and f != "crc32":
                d["x"] = hexs(raw)
            if ln >= 1:
                d["b0"] = raw[0]
            if ln >= 2:
                d["b1"] = raw[1]
        pre = name.rsplit(".", 1)[0]
        # reference values computed with the glue's own CRC code over the ranges the format prescribes
        if f == "crc32":
            if g == "sheader":
                d["calc"] = "%08x" % gcrc.crc32(out[o - 2:o])
            elif g == "bheader":
                st = offs[pre + ".size"]
                d["calc"] = "%08x" % gcrc.crc32(out[st:o])
            elif g == "index":
                d["calc"] = "%08x" % gcrc.crc32(out[offs[pre + ".indicator"]:o])
            elif g == "footer":
                d["calc"] = "%08x" % gcrc.crc32(out[o + 4:o + 10])
        if g == "block" and f == "check":
            bm = bmeta.get(pre)
            cid = out[offs[name.split(".")[0] + ".header.flags"] + 1] & 0x0F
            d["calc"] = hexs(gcrc.check_bytes(cid, bm["data"])) if bm else "?"
        if g == "block" and f == "data":
            bm = bmeta.get(pre)
            d["usize"] = bm["usize"]; d["maxdist"] = bm["maxdist"]
        ev.append(d)
    ev.append({"e": "EOF", "verdict": P.verdict, "consumed": P.consumed, "outlen": len(P.output), "outdig": dig(P.output),
               "detail": P.detail[:200]})
    return ev

def file_events(R):
    """(label, events) for spec/TraceEncXzFile.tla from the glue field parser (.xz) or from the 13 header bytes (.lzma)."""
    info = R.info
    label = plan_label(R.plan) + "/n%d" % len(R.data)
    out = R.out
    rs = file_reset(R, label)
    if R.kind == "alone":
        A = galone.parse(out, collect='stats')
        dsz = struct.unpack_from("<I", out, 1)[0] if len(out) >= 13 else 0
        st = A.lzma.stats if A.lzma is not None and A.lzma.stats else None
        return label, [rs, {"e": "AloneHeader", "props": out[0] if out else -1, "dictlo": dsz % 65536, "dicthi": dsz // 65536,
                            "usize": hexs(out[5:13]), "maxdist": st["max_dist"] if st else 0,
                            "eopm": bool(A.lzma is not None and A.lzma.status == "ok_eopm"),
                            "verdict": A.verdict, "consumed": A.consumed, "outlen": len(A.out), "outdig": dig(A.out),
                            "indig": dig(R.data)}]
    P = getattr(R, "parse", None) or gxz.parse(out, collect='stats')
    R.parse = P
    return label, [rs] + field_events(P, out)
