"""Case construction and execution shared by checks/c01.py and checks/c02.py.

A *case* = (plan emitted by TLC from GenEncConfig, input description).  `run_case` executes it in a worker process:
real encoder (+ the same input again with the match finder forced to normalise early), liblzma's decoder, the glue
tokeniser; it returns events only - the verdict is TLC's (trace validation in the parent).
"""
import os, random, time, traceback
from harness.pydrv import lz
from harness.enc import encrun as E

_loaded = {}

def _load(variant):
    from lib import build
    if _loaded.get("cur") != variant:
        lz.load(build.lib(variant)["so"])
        _loaded["cur"] = variant

def inputs_for(plan, idx, tier, rng):
    """-> list of dict(kind, n, period, tag).  Deterministic in (plan, idx, rng)."""
    quick = tier == "quick"
    e = plan["entry"]
    ds = 8 << 20
    if plan.get("dict", "dflt") != "dflt" and e not in ("easy", "easy_buffer") and not (e == "stream_mt" and plan.get("mtpreset")):
        ds = int(plan["dict"])
    else:
        ds = {0: 1 << 18, 1: 1 << 20, 2: 1 << 21, 3: 1 << 22, 4: 1 << 22, 5: 1 << 23, 6: 1 << 23, 7: 1 << 24, 8: 1 << 25,
              9: 1 << 26}[int(plan["preset"])]
    out = []
    out.append(dict(kind="text", n=idx % 2, tag="tiny"))
    out.append(dict(kind="mixed", n=rng.randint(2, 380), tag="small-mixed"))
    out.append(dict(kind=rng.choice(["periodic", "text", "equal"]), n=rng.randint(20, 400), period=rng.choice([1, 2, 3, 7, 30]),
                    tag="small-rep"))
    # periodic with a period around the dictionary size (distance = dict_size and dict_size +- 1)
    slow = plan.get("mode") != "fast" and plan.get("depth") not in ("0", "1")
    cap = 20000 if quick else (200000 if slow else (1 << 20) + 1)
    per = min(ds, cap) + rng.choice([-1, 0, 0, 1])
    out.append(dict(kind="periodic", n=int(per * rng.choice([2.2, 3.1])) + rng.randint(0, 50), period=max(1, per), tag="periodic-dict"))
    # incompressible: uncompressed-chunk path, chunk limit 2^16
    n = 65536 + rng.choice([-1, 0, 1]) if (idx % 3 == 0 or not quick) else rng.choice([3000, 9000])
    out.append(dict(kind="rand", n=n, tag="incompressible"))
    # long matches / lengths around the Block size
    bs = int(plan.get("bsize", 0) or 0)
    if e == "stream_mt" and bs:
        n = bs * rng.choice([1, 2, 3]) + rng.choice([-1, 0, 1])
    else:
        n = rng.choice([12000, 40000, 65536 + rng.choice([-1, 0, 1])])
    out.append(dict(kind=rng.choice(["equal", "text", "x86" if plan.get("chain") in ("x86", "arm64delta") else "text"]), n=n,
                    tag="around-limits"))
    if e == "stream_mt" and bs:
        # every Block re-initialises an encoder (up to 100+ MiB of tables): keep the number of Blocks bounded
        for x in out:
            x["n"] = min(x["n"], (40 if ds < (1 << 24) else 12) * bs + 1)
    heavy = ds >= (1 << 24)
    if quick and heavy:
        # presets 7-9 spend their time allocating and clearing 100+ MiB of match finder tables per Block:
        # fewer and smaller inputs in the quick tier (the thorough tier runs everything)
        keep = [out[0], out[1], out[3], out[4 + idx % 2]]
        if e == "stream_mt" and bs:
            for x in keep:
                x["n"] = min(x["n"], 3 * bs + 1)
        for x in keep:
            x["heavy"] = True
        return keep
    # small dictionary + long incompressible input: the window slides (move_window) while a chunk that will be stored
    # uncompressed is pending; keep_size_before must cover the whole chunk (EncWindow!ChunkStaysInWindow)
    if ds < 65536 and (idx % 3 == 0 or not quick):
        out.append(dict(kind=["rand", "randmix"][idx % 2], n=(1 << 20) + 150000 + rng.randint(0, 5000), tag="slide-incompressible",
                        heavy=True))
    if quick:
        fast = plan.get("mode") == "fast" or e in ("easy", "easy_buffer") and int(plan["preset"]) <= 3
        if idx % 8 == 0 and fast:
            # LZMA2 chunk limit 2^21 (cheap: all-equal data)
            out.append(dict(kind="equal", n=(1 << 21) + rng.choice([-1, 0, 1]) + rng.choice([0, 300]), tag="chunk-2MiB"))
        elif idx % 8 == 4 and fast and ds <= 65536:
            # longer than the encoder's input window: move_window() runs
            out.append(dict(kind="text", n=700000 + rng.randint(0, 4000), tag="window-slide"))
    if not quick:
        big = idx % 6
        if big == 0:
            out.append(dict(kind="equal", n=(1 << 21) + rng.choice([-1, 0, 1]), tag="chunk-2MiB"))
        elif big == 1:
            out.append(dict(kind="text", n=(1 << 21) + rng.choice([-1, 0, 1]) + (1 << 16), tag="chunk-2MiB-text"))
        elif big == 2:
            out.append(dict(kind="rand", n=(1 << 20) + rng.choice([-1, 0, 1]), tag="rand-1MiB"))
        elif big == 3:
            out.append(dict(kind="periodic", n=3 * (1 << 20) + 7, period=(1 << 20) + rng.choice([0, 1, 2]), tag="periodic-1MiB"))
        elif big == 4:
            out.append(dict(kind="mixed", n=300000 + rng.randint(0, 1000), tag="mixed-300K"))
    if e == "stream_mt" and bs:
        for x in out:
            x["n"] = min(x["n"], (40 if ds < (1 << 24) else 12) * bs + 1)
    return out

SRF_FLUSHABLE = ("stream", "raw2", "block")

def padding_jobs(plans):
    """Index Padding of 2 and 3 bytes through every multi-call producer of an Index (easy, stream, threaded stream
    encoder, lzma_index_encoder), with one-byte output grants and with a grant ending after each padding byte.
    Record sizes decide the padding: 1 + vli(count) + vli sizes = 6 -> 2 bytes (1000 random bytes: both sizes take two
    VLI bytes; also the empty Index), = 5 -> 3 bytes (200 equal bytes: Unpadded Size < 128)."""
    jobs = []
    for entry in ("easy", "stream", "stream_mt", "index_enc"):
        src = "block_buffer" if entry == "index_enc" else entry
        cand = [p for p in plans if p["entry"] == src and not p.get("mtpreset")] or [p for p in plans if p["entry"] == src]
        if not cand:
            continue
        q = dict(cand[0], entry=entry, chain="lzma2", flush="none", update="none", history="fresh", pdict="no", bsize=0,
                 dict="65536" if entry != "easy" else cand[0].get("dict"))
        for pad, kind, n in ((2, "rand", 1000), (3, "equal", 200), (2, "text", 0)):
            if n == 0 and entry == "index_enc":
                continue
            jobs.append((dict(q, oslice="ones"), dict(kind=kind, n=n, tag="index-padding", pad=pad)))
            for j in range(1, pad):
                jobs.append((dict(q, oslice="whole"), dict(kind=kind, n=n, tag="index-padding", pad=pad, padcut=j)))
    return jobs

def srf_jobs(plans, tier, rng, per_plan):
    """Chunk-boundary adversary (EncWindow!UncompressedFits).  Input S|R|F (encrun.gen_input 'srf') with LZMA_SYNC_FLUSH
    after S, so the chunk under test starts at R; the start of the look-ahead run F is swept over every offset where an
    incompressible chunk can end (step 64 over [59000, 66600]: compressed limit minus any reserve, up to the limit).
    TLC's plans that use the optimal parser (mode normal, nice_len 32/273) are taken as emitted except: plain LZMA2
    chain (other filters destroy the match structure), dictionary >= 1 MiB so that S is reachable from F, one flush, and
    an entry point that can flush (raw2 when the plan's cannot)."""
    quick = tier == "quick"
    elig = [p for p in plans if p["entry"] not in ("easy", "easy_buffer", "alone", "raw1", "raw1_buffer", "microlzma")
            and p.get("mode") == "normal" and p.get("nice") in ("32", "273") and not p.get("mtpreset")]
    elig.sort(key=lambda p: (p["entry"] not in SRF_FLUSHABLE, p.get("nice") != "273", p.get("mf") not in ("bt4", "hc4")))
    chosen = elig[:3 if quick else 8]
    jobs = []
    for pi, p in enumerate(chosen):
        q = dict(p, chain="lzma2", flush="sync", update="none", history="fresh", pdict="no", cuts=[E.SRF_SLEN], oslice="whole")
        if q["entry"] not in SRF_FLUSHABLE:
            q["entry"] = "raw2"
        if q.get("dict") != "dflt" and int(q["dict"]) < (1 << 20):
            q["dict"] = "1048577"
        step = 64
        off = rng.randrange(step)
        for x in range(59000 + off, 66600, step):
            jobs.append((q, dict(kind="srf", n=E.SRF_SLEN + x + E.SRF_TLEN, period=x, tag="chunk-boundary-sweep", heavy=True)))
    return jobs

def bias_values(n, ds, rng, quick, heavy=False):
    c = [b for b in (1000, 5000, 70000) if b < n]
    extra = []
    if n >= 3:
        extra.append(rng.randint(1, n - 1))
    if ds + 2 < n:
        extra.append(ds + rng.choice([0, 1, 2]))
    vals = sorted(set(c + extra))
    lim = (1 if heavy else 3) if quick else (2 if n > 500000 else 4)
    if len(vals) > lim:
        rng.shuffle(vals); vals = sorted(vals[:lim])
    return vals

def run_case(job):
    """job = dict(plan, inp, seed, variant, want (set of 'lz','file','bias'), idx).  Returns a dict (picklable)."""
    t0 = time.time()
    res = dict(idx=job["idx"], plan=job["plan"], inp=job["inp"], errors=[], lz=[], file=None, nbias=0, wall=0.0, encs=0)
    try:
        _load(job["variant"])
        rng = random.Random(job["seed"])
        inp = job["inp"]
        data = E.gen_input(inp["kind"], inp["n"], rng, inp.get("period"))
        plan = job["plan"]
        pd = E.preset_dict_bytes(plan)
        if pd:
            dsz = int(plan["dict"]) if plan.get("dict", "dflt") != "dflt" else (1 << 20)
            data = E.splice_preset(data, pd, dsz, rng)
        R = E.encode(plan, data, bias=0, seed=job["seed"])
        res["encs"] += 1
        if inp.get("pad") is not None:
            # Index Padding jobs.  The guard below is about the harness' own choice of input only: when the first pass is
            # not a valid file that decodes to the input (possible with a broken encoder), nothing is second-guessed here -
            # the output goes down the normal judge path and is reported there.
            from harness.glue import xz as gxz
            P0 = gxz.parse(R.out, collect=None)
            sound = P0.verdict == "ok" and P0.output == data
            pe = [(o, ln) for nm, o, ln, v in P0.events if nm.endswith("index.padding")]
            ie = [o for nm, o, ln, v in P0.events if nm.endswith("index.indicator")]
            if sound and (not pe or pe[0][1] != inp["pad"]):
                raise RuntimeError("harness input choice: Index Padding of %r is %r, wanted %d bytes" % (inp, pe, inp["pad"]))
            if sound and inp.get("padcut"):
                # second pass: an output grant that ends after `padcut` bytes of Index Padding
                base = ie[0] if plan["entry"] == "index_enc" else 0
                R = E.encode(dict(plan, ogrants=[pe[0][0] - base + inp["padcut"]]), data, bias=0, seed=job["seed"])
                res["encs"] += 1
        res["enclen"] = len(R.out); res["consumed"] = R.consumed; res["kind"] = R.kind
        libret, libout = E.lib_decode(R)
        ex = E.lz_executions(R, libret, libout, mode=job.get("mode"))
        biases = []
        if "bias" in job["want"]:
            for b in bias_values(len(data), R.info["dict_size"], rng, job.get("quick", True),
                                 inp.get("heavy", False) or len(pd) > 100000):
                R2 = E.encode(plan, data, bias=b, seed=job["seed"])
                res["encs"] += 1
                ev = {"e": "Bias", "n": b, "dig": E.dig(R2.out), "len": len(R2.out)}
                if R2.out != R.out:
                    # diagnosis only (the trace spec rejects the event): does the different output at least decode?
                    R2.data = data
                    try:
                        lr, lo = E.lib_decode(R2)
                        ev["decodes"] = (lr == "STREAM_END" and lo == data[:R2.consumed])
                    except Exception as x:
                        ev["decodes"] = False
                biases.append(ev)
        if plan.get("history", "fresh") != "fresh" and getattr(R, "history", "fresh") != "fresh":
            # the same run on a fresh handle
            R3 = E.encode(dict(plan, history="fresh"), data, bias=0, seed=job["seed"])
            res["encs"] += 1
            biases.append({"e": "Fresh", "dig": E.dig(R3.out), "len": len(R3.out), "history": plan["history"]})
        res["nbias"] = len(biases)
        for k, x in enumerate(ex):
            label, fmt, evs, end = x
            if k == 0:
                evs = evs + biases
            evs = evs + [dict(end, e="End")]
            res["lz"].append((label, fmt, evs))
        if "file" in job["want"] and R.kind in ("xz", "alone"):
            res["file"] = E.file_events(R)
        res["nblocks"] = getattr(R, "nblocks", 1)
        res["gluematch"] = (R.glue_out == data[:R.consumed])
        res["libmatch"] = (libret == "STREAM_END" and libout == data[:R.consumed])
    except E.EncError as x:
        res["errors"].append((x.key, x.detail))
    except Exception as x:
        tb = traceback.format_exc()[-3000:]
        # An exception of the analysis code is a machinery failure only if the encoder's output is sound; output that
        # liblzma's own decoder does not turn back into the input is the encoder's fault and is reported as such.
        sound = None
        try:
            R_ = locals().get("R")
            if R_ is not None and getattr(R_, "out", None) is not None:
                lr, lo = E.lib_decode(R_)
                sound = (lr == "STREAM_END" and lo == R_.data[:R_.consumed])
        except Exception:
            sound = False
        if sound is False:
            res["errors"].append(("enc:unanalysable:%s" % job["plan"]["entry"],
                                  "the encoder's output does not decode to the input and cannot be analysed: plan=%r input=%r\n%s" % (
                                      job["plan"], job["inp"], tb)))
        else:
            res["errors"].append(("machinery", tb))
    res["wall"] = time.time() - t0
    return res

def _worker(jobs, conn, errpath):
    """Child: run its share of the jobs in order, send (position, result) after each."""
    try:
        fd = os.open(errpath, os.O_WRONLY | os.O_CREAT | os.O_TRUNC, 0o600)
        os.dup2(fd, 2)
    except OSError:
        pass
    for pos, job in jobs:
        conn.send(("start", pos))
        conn.send(("done", pos, run_case(job)))
    conn.send(("end",))
    conn.close()
    os._exit(0)

def _crash_result(job, how, stderr_tail):
    """A worker died while running `job`: the encoder (or liblzma's decoder) crashed / aborted / hung."""
    import re
    what = how
    m = re.search(r"ERROR: AddressSanitizer: ([\w-]+)", stderr_tail)
    if m:
        what = m.group(1)
        f = re.search(r"#\d+ 0x[0-9a-f]+ in (\w+)", stderr_tail)
        if f:
            what += ":" + f.group(1)
    else:
        m = re.search(r"runtime error: ([^\n]{0,60})", stderr_tail)
        if m:
            what = "ubsan:" + re.sub(r"[^a-z ]", "", m.group(1).lower()).strip().replace(" ", "_")[:40]
        else:
            m = re.search(r"Assertion `([^']{0,80})' failed", stderr_tail)
            if m:
                what = "assert:" + re.sub(r"\s+", "", m.group(1))[:60]
    return dict(idx=job["idx"], plan=job["plan"], inp=job["inp"], lz=[], file=None, nbias=0, wall=0.0, encs=0,
                errors=[("crash:%s:%s" % (job["plan"]["entry"], what),
                         "the library crashed / aborted / hung (%s) while encoding or decoding: plan=%r input=%r\n%s" % (
                             how, job["plan"], job["inp"], stderr_tail[-2500:]))])

def run_all(jobs, procs=4, job_timeout=300, workdir="/var/tmp", log=None, after_spawn=None):
    """Run jobs in forked worker processes; returns results in job order.  A worker that dies (sanitizer report,
    assertion, signal) or makes no progress for job_timeout seconds is charged to the job it was running (reported as
    a crash result) and replaced, so one crashing configuration cannot hide the others or hang the check."""
    import multiprocessing as mp, select
    if procs <= 1:
        if after_spawn is not None:
            after_spawn()
        return [run_case(j) for j in jobs]
    ctxm = mp.get_context("fork")
    results = [None] * len(jobs)
    shares = [[(k, jobs[k]) for k in range(w, len(jobs), procs)] for w in range(procs)]
    workers = {}
    def spawn(w, share):
        if not share:
            return
        pr, pc = ctxm.Pipe(duplex=False)
        errpath = os.path.join(workdir, "encworker.%d.%d.err" % (os.getpid(), w))
        p = ctxm.Process(target=_worker, args=(share, pc, errpath))
        p.start()
        pc.close()
        workers[w] = dict(proc=p, conn=pr, share=share, cur=None, t=time.time(), err=errpath)
    for w in range(procs):
        spawn(w, shares[w])
    if after_spawn is not None:
        after_spawn()           # background threads of the caller start only after the workers were forked
    tlog = time.time()
    while workers:
        if log and time.time() - tlog > 120:
            tlog = time.time()
            log("cases: %d/%d done" % (sum(1 for r in results if r is not None), len(jobs)))
        conns = {st["conn"]: w for w, st in workers.items()}
        ready = mp.connection.wait(list(conns), timeout=2.0)
        for c in ready:
            w = conns[c]
            st = workers[w]
            try:
                msg = c.recv()
            except (EOFError, OSError):
                msg = ("dead",)
            if msg[0] == "start":
                st["cur"] = msg[1]; st["t"] = time.time()
            elif msg[0] == "done":
                results[msg[1]] = msg[2]; st["cur"] = None; st["t"] = time.time()
            elif msg[0] == "end":
                st["proc"].join(5); c.close(); workers.pop(w)
                try:
                    os.unlink(st["err"])
                except OSError:
                    pass
            else:
                st["proc"].join(5)
                _replace(workers, w, results, jobs, spawn, "exit %s" % st["proc"].exitcode)
        now = time.time()
        for w, st in list(workers.items()):
            if st["cur"] is not None and now - st["t"] > job_timeout:
                st["proc"].kill(); st["proc"].join(5)
                _replace(workers, w, results, jobs, spawn, "no progress for %ds" % job_timeout)
    for k, r in enumerate(results):
        if r is None:
            results[k] = _crash_result(jobs[k], "worker lost", "")
    return results

def _replace(workers, w, results, jobs, spawn, how):
    st = workers.pop(w)
    try:
        st["conn"].close()
    except OSError:
        pass
    tail = ""
    try:
        with open(st["err"], "r", errors="replace") as f:
            tail = f.read()[-6000:]
    except OSError:
        pass
    cur = st["cur"]
    rest = [(k, j) for k, j in st["share"] if results[k] is None]
    if cur is None and rest:
        cur = rest[0][0]            # died between two jobs: charge the next one
    if cur is not None:
        results[cur] = _crash_result(jobs[cur], how, tail)
    rest = [(k, j) for k, j in rest if k != cur]
    spawn(w, rest)
