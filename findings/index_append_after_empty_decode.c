#include <lzma.h>
#include <stdio.h>
#include <stdlib.h>
int main(void) {
	// Index of a Stream with zero Blocks: indicator 0x00, count 0, padding, CRC32
	lzma_index *e = lzma_index_init(NULL);
	uint8_t buf[64]; size_t pos = 0;
	if (lzma_index_buffer_encode(e, buf, &pos, sizeof buf) != LZMA_OK) return 2;
	lzma_index_end(e, NULL);
	lzma_index *i = NULL; uint64_t memlimit = UINT64_MAX; size_t in_pos = 0;
	lzma_ret r = lzma_index_buffer_decode(&i, &memlimit, NULL, buf, &in_pos, pos);
	printf("decode ret=%d records=%llu\n", r, (unsigned long long)lzma_index_block_count(i));
	r = lzma_index_append(i, NULL, 100, 1000);   // valid call on a valid lzma_index
	printf("append ret=%d records=%llu\n", r, (unsigned long long)lzma_index_block_count(i));
	lzma_index_end(i, NULL);
	return 0;
}
