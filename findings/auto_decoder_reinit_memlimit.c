// lzma_auto_decoder() called again on a used handle with ANOTHER memlimit: lzma_memlimit_get()/lzma_memusage()
// before the first lzma_code() answer for the sub-decoder left over from the previous use
#include <lzma.h>
#include <stdio.h>
#include <stdlib.h>
static size_t enc(uint8_t *out, size_t cap){
	lzma_stream s = LZMA_STREAM_INIT; if (lzma_easy_encoder(&s,6,LZMA_CHECK_CRC32)!=LZMA_OK) exit(2);
	static uint8_t in[5000]; for (size_t i=0;i<sizeof in;i++) in[i]=(uint8_t)(i*i>>3);
	s.next_in=in; s.avail_in=sizeof in; s.next_out=out; s.avail_out=cap;
	if (lzma_code(&s,LZMA_FINISH)!=LZMA_STREAM_END) exit(2);
	size_t n = cap - s.avail_out; lzma_end(&s); return n;
}
int main(void){
	static uint8_t f[8192], out[8192]; size_t n = enc(f,sizeof f);
	lzma_stream s = LZMA_STREAM_INIT;
	if (lzma_auto_decoder(&s,UINT64_MAX,0)!=LZMA_OK) return 2;
	s.next_in=f; s.avail_in=n; s.next_out=out; s.avail_out=sizeof out;
	if (lzma_code(&s,LZMA_FINISH)!=LZMA_STREAM_END) return 2;
	if (lzma_auto_decoder(&s,(uint64_t)1<<20,0)!=LZMA_OK) return 2;        // next file: 1 MiB limit
	uint64_t lim = lzma_memlimit_get(&s);
	uint64_t mu = lzma_memusage(&s);
	lzma_ret u = lzma_memlimit_set(&s, (uint64_t)1<<20);
	printf("after re-initialisation with a 1 MiB limit: memlimit_get = %llu, memusage = %llu, memlimit_set(1 MiB) = %d\n",
		(unsigned long long)lim, (unsigned long long)mu, (int)u);
	int bad = lim != ((uint64_t)1<<20) || u != LZMA_OK;
	lzma_end(&s); puts(bad?"FAIL":"PASS"); return bad;
}
