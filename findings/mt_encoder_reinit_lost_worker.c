#include <lzma.h>
#include <stdio.h>
#include <unistd.h>
#include <signal.h>
static void on_alarm(int s){(void)s; if (write(1,"HANG\n",5)<0){} _exit(1);}
int main(void){
	static uint8_t in[1024], out[1<<16];
	signal(SIGALRM,on_alarm); alarm(5);
	lzma_stream strm = LZMA_STREAM_INIT;
	lzma_mt mt = {.threads=1,.block_size=65536,.preset=1,.check=LZMA_CHECK_CRC32};
	if (lzma_stream_encoder_mt(&strm,&mt)) return 2;
	strm.next_in=in; strm.avail_in=sizeof(in); strm.next_out=out; strm.avail_out=sizeof(out);
	lzma_code(&strm,LZMA_RUN);
	if (lzma_stream_encoder_mt(&strm,&mt)) return 2;
	strm.next_in=in; strm.avail_in=sizeof(in); strm.next_out=out; strm.avail_out=sizeof(out);
	lzma_ret r; do r=lzma_code(&strm,LZMA_FINISH); while(r==LZMA_OK);
	printf("ret=%d\n",(int)r); lzma_end(&strm); return 0;}
