// Probe (not a seeded defect): re-init with the same thread count but a larger block_size.
#include <lzma.h>
#include <stdio.h>
#include <stdlib.h>
#include <string.h>
#define GUARD 4096
static int bad;
static void *my_alloc(void *o, size_t n, size_t sz){(void)o; size_t t=n*sz; uint8_t *p=malloc(t+16+GUARD); if(!p)return NULL; memcpy(p,&t,8); memset(p+16+t,0xA5,GUARD); return p+16;}
static void my_free(void *o, void *ptr){(void)o; if(!ptr)return; uint8_t *p=(uint8_t*)ptr-16; size_t t; memcpy(&t,p,8); for(size_t i=0;i<GUARD;i++) if(p[16+t+i]!=0xA5){bad++; printf("overflow past a %zu-byte allocation at +%zu\n",t,i); break;} free(p);}
int main(void){
	lzma_allocator al={my_alloc,my_free,NULL};
	lzma_stream s=LZMA_STREAM_INIT; s.allocator=&al;
	static uint8_t in[8192], out[65536];
	for(size_t i=0;i<sizeof in;i++) in[i]=(uint8_t)(i*7);
	lzma_mt mt={.threads=1,.block_size=4096,.preset=0,.check=LZMA_CHECK_CRC32};
	if(lzma_stream_encoder_mt(&s,&mt)!=LZMA_OK) return 2;
	s.next_in=in; s.avail_in=100; s.next_out=out; s.avail_out=sizeof out;
	while(lzma_code(&s,LZMA_FINISH)==LZMA_OK){}
	mt.block_size=8192;
	if(lzma_stream_encoder_mt(&s,&mt)!=LZMA_OK) return 2;
	s.next_in=in; s.avail_in=6000; s.next_out=out; s.avail_out=sizeof out;
	while(lzma_code(&s,LZMA_FINISH)==LZMA_OK){}
	lzma_end(&s);
	printf(bad?"HEAD: heap overflow detected\n":"HEAD: no overflow\n");
	return bad!=0;
}
