// .lzma: decode with dict size X, then fail the dictionary allocation for size Y, then decode size X again
#include <lzma.h>
#include <stdio.h>
#include <stdlib.h>
#include <string.h>
static size_t fail_size = 0;
static void *my_alloc(void *o, size_t n, size_t sz){(void)o; if (fail_size && n*sz >= fail_size && n*sz < fail_size + 4096) return NULL; return malloc(n*sz);}
static void my_free(void *o, void *p){(void)o; free(p);}
static size_t enc(uint8_t *out, size_t cap, uint32_t dict){
	lzma_options_lzma o; lzma_lzma_preset(&o, 0); o.dict_size = dict;
	lzma_stream s = LZMA_STREAM_INIT; if (lzma_alone_encoder(&s,&o)!=LZMA_OK) exit(2);
	static uint8_t in[5000]; for (size_t i=0;i<sizeof in;i++) in[i]=(uint8_t)(i*i>>3);
	s.next_in=in; s.avail_in=sizeof in; s.next_out=out; s.avail_out=cap;
	if (lzma_code(&s,LZMA_FINISH)!=LZMA_STREAM_END) exit(2);
	size_t n = cap - s.avail_out; lzma_end(&s); return n;
}
int main(void){
	static uint8_t fx[8192], fy[8192], out[8192];
	size_t nx = enc(fx,sizeof fx,1<<16), ny = enc(fy,sizeof fy,1<<17);
	lzma_allocator al = {my_alloc,my_free,NULL};
	lzma_stream s = LZMA_STREAM_INIT; s.allocator=&al;
	lzma_ret r;
	if (lzma_alone_decoder(&s,UINT64_MAX)!=LZMA_OK) return 2;
	s.next_in=fx; s.avail_in=nx; s.next_out=out; s.avail_out=sizeof out;
	r = lzma_code(&s,LZMA_FINISH); printf("1: X -> %d\n",(int)r);
	if (lzma_alone_decoder(&s,UINT64_MAX)!=LZMA_OK) return 2;
	fail_size = 1<<17;   // hmm: dictionary allocation size
	s.next_in=fy; s.avail_in=ny; s.next_out=out; s.avail_out=sizeof out;
	r = lzma_code(&s,LZMA_FINISH); printf("2: Y with failing dict alloc -> %d\n",(int)r);
	fail_size = 0;
	if (lzma_alone_decoder(&s,UINT64_MAX)!=LZMA_OK) return 2;
	s.next_in=fx; s.avail_in=nx; s.next_out=out; s.avail_out=sizeof out;
	r = lzma_code(&s,LZMA_FINISH); printf("3: X again -> %d\n",(int)r);
	lzma_end(&s); return 0;
}
